(* C04 OPACK - basic lemmas: slices, the value domain (wf, norm, erase), a nested induction
   principle for values, the branches of unpack_leaf by head byte, and the leaf round trip. *)
From Coq Require Import NArith ZArith List Bool Lia ZifyBool.
From PV Require Import Common.Cases Common.Endian C04.OpackModel.
Import ListNotations.
Local Open Scope N_scope.
Ltac Zify.zify_post_hook ::= Z.to_euclidean_division_equations.

(* ------------------------------------------------------------------ slices *)

Lemma takeN_firstn {A} (l : list A) : forall n, takeN n l = firstn (N.to_nat n) l.
Proof.
  induction l as [|x t IH]; intro n; simpl.
  - now rewrite firstn_nil.
  - destruct (N.eqb_spec n 0) as [->|Hn]; [reflexivity|].
    replace (N.to_nat n) with (S (N.to_nat (N.pred n))) by lia. simpl. now rewrite IH.
Qed.

Lemma dropN_skipn {A} (l : list A) : forall n, dropN n l = skipn (N.to_nat n) l.
Proof.
  induction l as [|x t IH]; intro n; simpl.
  - now rewrite skipn_nil.
  - destruct (N.eqb_spec n 0) as [->|Hn]; [reflexivity|].
    replace (N.to_nat n) with (S (N.to_nat (N.pred n))) by lia. simpl. now rewrite IH.
Qed.

Lemma nthN_nth_error {A} (l : list A) : forall n, nthN l n = nth_error l (N.to_nat n).
Proof.
  induction l as [|x t IH]; intro n; simpl.
  - now destruct (N.to_nat n).
  - destruct (N.eqb_spec n 0) as [->|Hn]; [reflexivity|].
    replace (N.to_nat n) with (S (N.to_nat (N.pred n))) by lia. simpl. now rewrite IH.
Qed.

Lemma takeN_app_len {A} (s r : list A) n : n = lenN s -> takeN n (s ++ r) = s.
Proof.
  intros ->. rewrite takeN_firstn. unfold lenN. rewrite Nat2N.id.
  rewrite firstn_app, Nat.sub_diag, firstn_all. simpl. apply app_nil_r.
Qed.

Lemma dropN_app_len {A} (s r : list A) n : n = lenN s -> dropN n (s ++ r) = r.
Proof.
  intros ->. rewrite dropN_skipn. unfold lenN. rewrite Nat2N.id.
  rewrite skipn_app, Nat.sub_diag, skipn_all. reflexivity.
Qed.

Lemma takeN_length {A} (l : list A) n : lenN (takeN n l) = N.min n (lenN l).
Proof. unfold lenN. rewrite takeN_firstn, firstn_length. lia. Qed.

Lemma dropN_length {A} (l : list A) n : lenN (dropN n l) = lenN l - n.
Proof. unfold lenN. rewrite dropN_skipn, skipn_length. lia. Qed.

Lemma takeN_dropN {A} (l : list A) n : takeN n l ++ dropN n l = l.
Proof. rewrite takeN_firstn, dropN_skipn. apply firstn_skipn. Qed.

Lemma lenN_app {A} (a b : list A) : lenN (a ++ b) = lenN a + lenN b.
Proof. unfold lenN. rewrite app_length. lia. Qed.

Lemma lenN_cons {A} (x : A) l : lenN (x :: l) = 1 + lenN l.
Proof. unfold lenN. simpl length. lia. Qed.

Lemma lenN_le_enc k n : lenN (le_enc k n) = N.of_nat k.
Proof. unfold lenN. now rewrite le_enc_length. Qed.

Lemma bytes_beq_eq a b : bytes_beq a b = true <-> a = b.
Proof. apply list_beq_eq. intros x y. apply N.eqb_eq. Qed.

Lemma bytes_beq_refl a : bytes_beq a a = true.
Proof. now apply bytes_beq_eq. Qed.

(* length-prefixed payload: what the decoder reads back *)
Lemma lp_read k n (s rest : bytes) :
  n = lenN s -> n < 256 ^ N.of_nat k ->
  let d := (le_enc k n ++ s) ++ rest in
  le_dec (takeN (N.of_nat k) d) = n /\
  takeN n (dropN (N.of_nat k) d) = s /\
  dropN n (dropN (N.of_nat k) d) = rest.
Proof.
  intros Hn Hk d. subst d. rewrite <- app_assoc.
  rewrite takeN_app_len by (now rewrite lenN_le_enc).
  rewrite dropN_app_len by (now rewrite lenN_le_enc).
  rewrite le_dec_enc by assumption.
  rewrite takeN_app_len by assumption. rewrite dropN_app_len by assumption. auto.
Qed.

(* ------------------------------------------------------------------ value domain *)

Section ValueInd.
  Variable P : value -> Prop.
  Hypothesis HNone : P VNone.
  Hypothesis HBool : forall b, P (VBool b).
  Hypothesis HInt : forall z h, P (VInt z h).
  Hypothesis HFloat : forall b, P (VFloat b).
  Hypothesis HStr : forall s, P (VStr s).
  Hypothesis HBytes : forall s, P (VBytes s).
  Hypothesis HUUID : forall u, P (VUUID u).
  Hypothesis HList : forall l, Forall P l -> P (VList l).
  Hypothesis HDict : forall kv, Forall (fun p => P (fst p) /\ P (snd p)) kv -> P (VDict kv).

  Fixpoint value_ind' (v : value) : P v :=
    match v with
    | VNone => HNone
    | VBool b => HBool b
    | VInt z h => HInt z h
    | VFloat b => HFloat b
    | VStr s => HStr s
    | VBytes s => HBytes s
    | VUUID u => HUUID u
    | VList l =>
        HList l ((fix go (l : list value) : Forall P l :=
                    match l with
                    | [] => Forall_nil _
                    | x :: t => Forall_cons x (value_ind' x) (go t)
                    end) l)
    | VDict kv =>
        HDict kv ((fix go (l : list (value * value)) : Forall (fun p => P (fst p) /\ P (snd p)) l :=
                     match l with
                     | [] => Forall_nil _
                     | (k, x) :: t => Forall_cons (k, x) (conj (value_ind' k) (value_ind' x)) (go t)
                     end) kv)
    end.
End ValueInd.

(* which encoding class the int branch of _pack takes: 0 = one byte, else 0x30 + log2 *)
Definition int_hint (z : Z) (h : N) : N :=
  if (z <? 0x28)%Z && (h =? 0) then 0
  else if ((z <=? 0xFF)%Z && (h =? 0)) || (h =? 1) then 1
  else if ((z <=? 0xFFFF)%Z && (h =? 0)) || (h =? 2) then 2
  else if ((z <=? 0xFFFFFFFF)%Z && (h =? 0)) || (h =? 4) then 4
  else 8.

(* what unpack (pack v) is: every int carries the size it was written with *)
Fixpoint norm (v : value) : value :=
  match v with
  | VInt z h => VInt z (int_hint z h)
  | VList l => VList (map norm l)
  | VDict kv => VDict (map (fun p => (norm (fst p), norm (snd p))) kv)
  | _ => v
  end.

(* forget size hints: int_2b(300) == 300 *)
Fixpoint erase (v : value) : value :=
  match v with
  | VInt z _ => VInt z 0
  | VList l => VList (map erase l)
  | VDict kv => VDict (map (fun p => (erase (fst p), erase (snd p))) kv)
  | _ => v
  end.

Definition wf_int (z : Z) (h : N) : Prop :=
  (h = 0 /\ (-1 <= z < 2 ^ 64)%Z) \/ (h = 1 /\ (0 <= z < 2 ^ 8)%Z) \/ (h = 2 /\ (0 <= z < 2 ^ 16)%Z) \/
  (h = 4 /\ (0 <= z < 2 ^ 32)%Z) \/ (h = 8 /\ (0 <= z < 2 ^ 64)%Z).

Definition nan_key (v : value) : bool := match v with VFloat b => is_nan b | _ => false end.

(* keys of one dict: hashable, not NaN, pairwise different as Python keys *)
Definition keys_ok (ks : list value) : Prop :=
  Forall (fun k => hashable k = true /\ nan_key k = false) ks /\
  ForallOrdPairs (fun a b => key_eq a b = false) ks.

Inductive wf : value -> Prop :=
| wf_none : wf VNone
| wf_bool b : wf (VBool b)
| wf_vint z h : wf_int z h -> wf (VInt z h)
| wf_float b : length b = 8%nat -> wf_bytes b -> wf (VFloat b)
| wf_str s : wf_bytes s -> utf8_valid s = true -> lenN s < 2 ^ 32 -> wf (VStr s)
| wf_vbytes s : wf_bytes s -> lenN s < 2 ^ 64 -> wf (VBytes s)
| wf_uuid u : length u = 16%nat -> wf_bytes u -> wf (VUUID u)
| wf_list l : Forall wf l -> wf (VList l)
| wf_dict kv : Forall (fun p => wf (fst p) /\ wf (snd p)) kv -> keys_ok (map fst kv) -> wf (VDict kv).

(* ------------------------------------------------------------------ unpack_leaf by head byte *)

Ltac skip_if := match goal with |- (if ?c then _ else _) = _ => destruct c eqn:?; [exfalso; lia|] end.
Ltac take_if := match goal with |- (if ?c then _ else _) = _ => destruct c eqn:?; [|exfalso; lia] end.

Lemma ul_small b rest : 7 <= b <= 0x2F ->
  unpack_leaf b rest = Some (Ok (VInt (Z.of_N b - 8) 0, rest, false)).
Proof. intro H. unfold unpack_leaf. do 5 skip_if. take_if. reflexivity. Qed.

Lemma ul_int k rest : (k <= 4)%nat ->
  unpack_leaf (0x30 + N.of_nat k) rest =
  Some (Ok (VInt (Z.of_N (le_dec (takeN (2 ^ N.of_nat k) rest))) (2 ^ N.of_nat k), dropN (2 ^ N.of_nat k) rest, true)).
Proof.
  intro H. destruct k as [|[|[|[|[|k]]]]]; try reflexivity. lia.
Qed.

Lemma ul_str_short b rest : 0x40 <= b <= 0x60 ->
  unpack_leaf b rest =
  Some (if utf8_valid (takeN (b - 0x40) rest) then Ok (VStr (takeN (b - 0x40) rest), dropN (b - 0x40) rest, true)
        else Raise UnicodeDecodeError).
Proof. intro H. unfold unpack_leaf. do 9 skip_if. take_if. reflexivity. Qed.

Lemma ul_str_len k rest : (1 <= k <= 4)%nat ->
  unpack_leaf (0x60 + N.of_nat k) rest =
  Some (let len := le_dec (takeN (N.of_nat k) rest) in
        let s := takeN len (dropN (N.of_nat k) rest) in
        if utf8_valid s then Ok (VStr s, dropN len (dropN (N.of_nat k) rest), true) else Raise UnicodeDecodeError).
Proof.
  intro H. destruct k as [|[|[|[|[|k]]]]]; try reflexivity; lia.
Qed.

Lemma ul_bytes_short b rest : 0x70 <= b <= 0x90 ->
  unpack_leaf b rest = Some (Ok (VBytes (takeN (b - 0x70) rest), dropN (b - 0x70) rest, true)).
Proof. intro H. unfold unpack_leaf. do 11 skip_if. take_if. reflexivity. Qed.

Lemma ul_bytes_len k rest : (1 <= k <= 4)%nat ->
  unpack_leaf (0x90 + N.of_nat k) rest =
  Some (let nb := 2 ^ (N.of_nat k - 1) in
        let len := le_dec (takeN nb rest) in
        Ok (VBytes (takeN len (dropN nb rest)), dropN len (dropN nb rest), true)).
Proof.
  intro H. destruct k as [|[|[|[|[|k]]]]]; try reflexivity; lia.
Qed.

(* pointers, containers and everything above fall through *)
Lemma ul_none b rest : 0x95 <= b -> unpack_leaf b rest = None.
Proof. intro H. unfold unpack_leaf. do 13 skip_if. reflexivity. Qed.

Lemma ul_zero rest : unpack_leaf 0 rest = None.
Proof. reflexivity. Qed.

Lemma ul_three rest : unpack_leaf 3 rest = None.
Proof. reflexivity. Qed.

(* ------------------------------------------------------------------ ints *)

Lemma to_le_ok k z : (0 <= z)%Z -> (z < Z.of_N (256 ^ N.of_nat k))%Z -> to_le k z = Ok (le_enc k (Z.to_N z)).
Proof.
  intros H0 H1. unfold to_le.
  destruct (z <? 0)%Z eqn:E1; [lia|].
  destruct (Z.of_N (256 ^ N.of_nat k) <=? z)%Z eqn:E2; [lia|]. reflexivity.
Qed.

Ltac case_if := match goal with |- context [if ?c then _ else _] => destruct c eqn:? end.

Lemma pack_int_spec z h : wf_int z h ->
  (int_hint z h = 0 /\ (-1 <= z < 40)%Z /\ pack_int z h = Ok [Z.to_N (z + 8)]) \/
  (exists k, (k <= 3)%nat /\ int_hint z h = 2 ^ N.of_nat k /\ (0 <= z < Z.of_N (256 ^ (2 ^ N.of_nat k)))%Z /\
             pack_int z h = Ok ((0x30 + N.of_nat k) :: le_enc (2 ^ k) (Z.to_N z))).
Proof.
  assert (T : forall k, (k <= 3)%nat -> (0 <= z < Z.of_N (256 ^ (2 ^ N.of_nat k)))%Z ->
              prefix (0x30 + N.of_nat k) (to_le (2 ^ k) z) = Ok ((0x30 + N.of_nat k) :: le_enc (2 ^ k) (Z.to_N z))).
  { intros k Hk Hz. rewrite to_le_ok; [reflexivity|lia|]. rewrite Nat2N.inj_pow. exact (proj2 Hz). }
  intros [(-> & H)|[(-> & H)|[(-> & H)|[(-> & H)|(-> & H)]]]]; unfold pack_int, int_hint;
    change (0 =? 0) with true; change (1 =? 0) with false; change (2 =? 0) with false;
    change (4 =? 0) with false; change (8 =? 0) with false;
    change (1 =? 1) with true; change (2 =? 1) with false; change (4 =? 1) with false; change (8 =? 1) with false;
    change (2 =? 2) with true; change (4 =? 2) with false; change (8 =? 2) with false;
    change (4 =? 4) with true; change (8 =? 4) with false;
    rewrite ?andb_true_r, ?andb_false_r, ?orb_false_r, ?orb_true_r.
  - destruct (z <? -1)%Z eqn:E0; [lia|].
    destruct (z <? 40)%Z eqn:E1; [left; repeat split; lia|].
    destruct (z <=? 255)%Z eqn:E2.
    { right. exists 0%nat. split; [lia|]. split; [reflexivity|]. split; [simpl; lia|]. apply (T 0%nat); simpl; lia. }
    destruct (z <=? 65535)%Z eqn:E3.
    { right. exists 1%nat. split; [lia|]. split; [reflexivity|]. split; [simpl; lia|]. apply (T 1%nat); simpl; lia. }
    destruct (z <=? 4294967295)%Z eqn:E4.
    { right. exists 2%nat. split; [lia|]. split; [reflexivity|]. split; [simpl; lia|]. apply (T 2%nat); simpl; lia. }
    destruct (z <=? 18446744073709551615)%Z eqn:E5; [|lia].
    right. exists 3%nat. split; [lia|]. split; [reflexivity|]. split; [simpl; lia|]. apply (T 3%nat); simpl; lia.
  - destruct (z <? -1)%Z eqn:E0; [lia|].
    right. exists 0%nat. split; [lia|]. split; [reflexivity|]. split; [simpl; lia|]. apply (T 0%nat); simpl; lia.
  - destruct (z <? -1)%Z eqn:E0; [lia|].
    right. exists 1%nat. split; [lia|]. split; [reflexivity|]. split; [simpl; lia|]. apply (T 1%nat); simpl; lia.
  - destruct (z <? -1)%Z eqn:E0; [lia|].
    right. exists 2%nat. split; [lia|]. split; [reflexivity|]. split; [simpl; lia|]. apply (T 2%nat); simpl; lia.
  - destruct (z <? -1)%Z eqn:E0; [lia|].
    destruct (z <=? 18446744073709551615)%Z eqn:E5; [|lia].
    right. exists 3%nat. split; [lia|]. split; [reflexivity|]. split; [simpl; lia|]. apply (T 3%nat); simpl; lia.
Qed.

(* ------------------------------------------------------------------ leaf round trip *)

Lemma ul_f64 rest : unpack_leaf 0x36 rest =
  Some (if lenN (takeN 8 rest) =? 8 then Ok (VFloat (takeN 8 rest), dropN 8 rest, true) else Raise StructError).
Proof. reflexivity. Qed.

Lemma ul_f32 rest : unpack_leaf 0x35 rest =
  Some (if lenN (takeN 4 rest) =? 4 then Ok (VFloat (le_enc 8 (widen32 (le_dec (takeN 4 rest)))), dropN 4 rest, true)
        else Raise StructError).
Proof. reflexivity. Qed.

Lemma ul_uuid rest : unpack_leaf 0x05 rest =
  Some (if lenN (takeN 16 rest) =? 16 then Ok (VUUID (takeN 16 rest), dropN 16 rest, true) else Raise ValueError).
Proof. reflexivity. Qed.

Lemma table_flag (add : bool) e x t :
  (add = false -> length e = 1%nat) -> (if add then table_add e x t else t) = table_add e x t.
Proof.
  destruct add; [reflexivity|]. intro H. unfold table_add. rewrite (H eq_refl). reflexivity.
Qed.

Lemma pack_str_spec s : lenN s < 2 ^ 32 ->
  (lenN s <= 0x20 /\ pack_str s = Ok ((0x40 + lenN s) :: s)) \/
  (exists k, (1 <= k <= 4)%nat /\ lenN s < 256 ^ N.of_nat k /\ 0x20 < lenN s /\
             pack_str s = Ok ((0x60 + N.of_nat k) :: le_enc k (lenN s) ++ s)).
Proof.
  intro H. unfold pack_str. set (n := lenN s) in *.
  destruct (n <=? 32) eqn:E0; [left; split; [lia|reflexivity]|]. right.
  destruct (n <=? 255) eqn:E1; [exists 1%nat; repeat split; simpl; lia|].
  destruct (n <=? 65535) eqn:E2; [exists 2%nat; repeat split; simpl; lia|].
  destruct (n <=? 16777215) eqn:E3; [exists 3%nat; repeat split; simpl; lia|].
  destruct (n <=? 4294967295) eqn:E4; [exists 4%nat; repeat split; simpl; lia|]. simpl in H. lia.
Qed.

(* 0x91..0x94 carry 1, 2, 4, 8 length bytes *)
Lemma pack_bytes_spec s : lenN s < 2 ^ 64 ->
  (lenN s <= 0x20 /\ pack_bytes s = Ok ((0x70 + lenN s) :: s)) \/
  (exists k, (1 <= k <= 4)%nat /\ lenN s < 256 ^ N.of_nat (2 ^ (k - 1)) /\ 0x20 < lenN s /\
             pack_bytes s = Ok ((0x90 + N.of_nat k) :: le_enc (2 ^ (k - 1)) (lenN s) ++ s)).
Proof.
  intro H. unfold pack_bytes. set (n := lenN s) in *.
  destruct (n <=? 32) eqn:E0; [left; split; [lia|reflexivity]|]. right.
  destruct (n <=? 255) eqn:E1; [exists 1%nat; repeat split; simpl; lia|].
  destruct (n <=? 65535) eqn:E2; [exists 2%nat; repeat split; simpl; lia|].
  destruct (n <=? 4294967295) eqn:E3; [exists 3%nat; repeat split; simpl; lia|].
  destruct (n <=? 18446744073709551615) eqn:E4; [exists 4%nat; repeat split; simpl; lia|]. simpl in H. lia.
Qed.

Lemma wf_int_inv z h : wf (VInt z h) -> wf_int z h.
Proof. intro H; inversion H; auto. Qed.
Lemma wf_float_inv b : wf (VFloat b) -> length b = 8%nat /\ wf_bytes b.
Proof. intro H; inversion H; auto. Qed.
Lemma wf_str_inv s : wf (VStr s) -> wf_bytes s /\ utf8_valid s = true /\ lenN s < 2 ^ 32.
Proof. intro H; inversion H; auto. Qed.
Lemma wf_bytes_inv s : wf (VBytes s) -> wf_bytes s /\ lenN s < 2 ^ 64.
Proof. intro H; inversion H; auto. Qed.
Lemma wf_uuid_inv u : wf (VUUID u) -> length u = 16%nat /\ wf_bytes u.
Proof. intro H; inversion H; auto. Qed.
Lemma wf_list_inv l : wf (VList l) -> Forall wf l.
Proof. intro H; inversion H; auto. Qed.
Lemma wf_dict_inv kv : wf (VDict kv) -> Forall (fun p => wf (fst p) /\ wf (snd p)) kv /\ keys_ok (map fst kv).
Proof. intro H; inversion H; auto. Qed.

Lemma leaf_rt v e rest : wf v -> leaf_bytes v = Some (Ok e) ->
  exists b body add, e = b :: body /\
    unpack_leaf b (body ++ rest) = Some (Ok (norm v, rest, add)) /\ (add = false -> length e = 1%nat).
Proof.
  intros W L. destruct v; simpl in L; try discriminate.
  - (* None *) inversion L; subst. exists 4, [], false. repeat split.
  - (* Bool *) inversion L; subst. destruct b; [exists 1, [], false|exists 2, [], false]; repeat split.
  - (* Int *)
    destruct (pack_int_spec z hint (wf_int_inv _ _ W)) as [(Hh & Hz & Hp)|(k & Hk & Hh & Hz & Hp)];
      rewrite Hp in L; inversion L; subst; clear L; simpl norm; rewrite Hh.
    + exists (Z.to_N (z + 8)), [], false. split; [reflexivity|]. split; [|reflexivity].
      simpl app. rewrite ul_small by lia. repeat f_equal. lia.
    + exists (0x30 + N.of_nat k), (le_enc (2 ^ k) (Z.to_N z)), true. split; [reflexivity|]. split; [|discriminate].
      rewrite ul_int by lia.
      assert (HL : 2 ^ N.of_nat k = lenN (le_enc (2 ^ k) (Z.to_N z))).
      { rewrite lenN_le_enc, Nat2N.inj_pow. reflexivity. }
      rewrite takeN_app_len by exact HL. rewrite dropN_app_len by exact HL.
      rewrite le_dec_enc by (rewrite Nat2N.inj_pow; simpl (N.of_nat 2); lia).
      repeat f_equal. lia.
  - (* Float *) destruct (wf_float_inv _ W) as (H0 & _). inversion L; subst. exists 0x36, bits, true. split; [reflexivity|]. split; [|discriminate].
    rewrite ul_f64. rewrite takeN_app_len by (unfold lenN; rewrite H0; reflexivity).
    rewrite dropN_app_len by (unfold lenN; rewrite H0; reflexivity).
    unfold lenN. rewrite H0. reflexivity.
  - (* Str *)
    destruct (wf_str_inv _ W) as (_ & H2 & H3).
    destruct (pack_str_spec s H3) as [(Hn & Hp)|(k & Hk & Hlt & Hgt & Hp)]; rewrite Hp in L; inversion L; subst; clear L.
    + exists (0x40 + lenN s), s, true. split; [reflexivity|]. split; [|discriminate].
      rewrite ul_str_short by lia. replace (0x40 + lenN s - 0x40) with (lenN s) by lia.
      rewrite takeN_app_len, dropN_app_len by reflexivity. rewrite H2. reflexivity.
    + exists (0x60 + N.of_nat k), (le_enc k (lenN s) ++ s), true. split; [reflexivity|]. split; [|discriminate].
      rewrite ul_str_len by lia.
      destruct (lp_read k (lenN s) s rest eq_refl Hlt) as (R1 & R2 & R3).
      cbv zeta. rewrite R1, R2, R3, H2. reflexivity.
  - (* Bytes *)
    destruct (wf_bytes_inv _ W) as (_ & H2).
    destruct (pack_bytes_spec s H2) as [(Hn & Hp)|(k & Hk & Hlt & Hgt & Hp)]; rewrite Hp in L; inversion L; subst; clear L.
    + exists (0x70 + lenN s), s, true. split; [reflexivity|]. split; [|discriminate].
      rewrite ul_bytes_short by lia. replace (0x70 + lenN s - 0x70) with (lenN s) by lia.
      rewrite takeN_app_len, dropN_app_len by reflexivity. reflexivity.
    + exists (0x90 + N.of_nat k), (le_enc (2 ^ (k - 1)) (lenN s) ++ s), true. split; [reflexivity|]. split; [|discriminate].
      rewrite ul_bytes_len by lia.
      destruct (lp_read (2 ^ (k - 1)) (lenN s) s rest eq_refl Hlt) as (R1 & R2 & R3).
      assert (E : 2 ^ (N.of_nat k - 1) = N.of_nat (2 ^ (k - 1))).
      { rewrite Nat2N.inj_pow. f_equal. lia. }
      cbv zeta. rewrite E, R1, R2, R3. reflexivity.
  - (* UUID *) destruct (wf_uuid_inv _ W) as (H0 & _). inversion L; subst. exists 5, u, true. split; [reflexivity|]. split; [|discriminate].
    rewrite ul_uuid. rewrite takeN_app_len by (unfold lenN; rewrite H0; reflexivity).
    rewrite dropN_app_len by (unfold lenN; rewrite H0; reflexivity).
    unfold lenN. rewrite H0. reflexivity.
Qed.
