(* C04/C05 - DNS messages and names, pyatv/support/dns.py, as the code stands (with the
   visited-offset set of commit ba56a25 in parse_domain_name).

   Conventions
   * a byte string is `list N`; a stream (io.BytesIO) is the pair (buf, pos) with pos : nat;
     `read(n)` never fails, it returns what is left (possibly nothing) - `rd`;
     `unpack_stream(fmt, buffer)` raises struct.error when the read comes back short - `rd_exact`.
   * a `str` is the list of its UTF-8 bytes.  `bytes.decode("utf-8")` is modelled by the
     validity test `utf8_valid` (Python's strict decoder: no overlong forms, no surrogates,
     nothing above U+10FFFF) followed by the identity.  NFC normalisation (qname_encode) is
     outside the model: labels are taken already normalised.  IDNA decoding of labels that
     start with "xn--" is outside the model: the model answers `DRaise EIdna` there and the
     correspondence run does not compare such cases.
   * a domain name is kept as its list of labels; `parse_domain_name` (what the code returns)
     is `join_dot` of it.
   * `x & 0xC0 >> 6` is `x / 64`, `x & 0x3F` is `x mod 64`, `hi << 8 | lo` is `hi * 256 + lo`
     (bytes < 256); the differential run checks that rewriting.
   * exceptions: an explicit result type; loops: explicit fuel, `DOutOfFuel` when exhausted. *)
From Coq Require Import NArith List Bool Arith Lia.
From PV Require Import Common.Cases Common.Endian.
Import ListNotations.
Local Open Scope N_scope.

Inductive derr :=
| EStruct    (* struct.error: unpack on a short read *)
| EAssert    (* AssertionError *)
| EValue     (* ValueError proper: compression loop, A record length *)
| EUnicode   (* UnicodeDecodeError (a ValueError subclass) *)
| EAddr      (* ipaddress.AddressValueError (a ValueError subclass) *)
| EType      (* TypeError: pack of a record whose rd has the wrong Python type *)
| EIdna.     (* not an exception: label starts with "xn--", IDNA is outside the model *)

Inductive dres (A : Type) := DOk (a : A) | DRaise (e : derr) | DOutOfFuel.
Arguments DOk {A} a.
Arguments DRaise {A} e.
Arguments DOutOfFuel {A}.

Definition dbind {A B} (r : dres A) (f : A -> dres B) : dres B :=
  match r with DOk a => f a | DRaise e => DRaise e | DOutOfFuel => DOutOfFuel end.
Notation "'dlet' x <- r ; k" := (dbind r (fun x => k)) (at level 200, x pattern, r at level 100, k at level 200).

Definition label := list N.
Definition name := list label.

(* ------------------------------------------------------------------ text helpers *)

Definition is_cont (b : N) : bool := (128 <=? b) && (b <=? 191).

(* Python's strict UTF-8 decoder accepts exactly the well-formed sequences of Unicode table 3-7 *)
Fixpoint utf8_valid (l : list N) : bool :=
  match l with
  | [] => true
  | b :: t =>
      if b <? 128 then utf8_valid t
      else if (194 <=? b) && (b <=? 223) then
        match t with
        | c1 :: t' => is_cont c1 && utf8_valid t'
        | _ => false
        end
      else if (224 <=? b) && (b <=? 239) then
        match t with
        | c1 :: c2 :: t' =>
            (if b =? 224 then (160 <=? c1) && (c1 <=? 191)
             else if b =? 237 then (128 <=? c1) && (c1 <=? 159)
             else is_cont c1) && is_cont c2 && utf8_valid t'
        | _ => false
        end
      else if (240 <=? b) && (b <=? 244) then
        match t with
        | c1 :: c2 :: c3 :: t' =>
            (if b =? 240 then (144 <=? c1) && (c1 <=? 191)
             else if b =? 244 then (128 <=? c1) && (c1 <=? 143)
             else is_cont c1) && is_cont c2 && is_cont c3 && utf8_valid t'
        | _ => false
        end
      else false
  end.

Definition is_ascii (b : N) : bool := b <? 128.
Definition lower (b : N) : N := if (65 <=? b) && (b <=? 90) then b + 32 else b.

Definition xn_prefix : list N := [120; 110; 45; 45].   (* b"xn--" *)
Definition is_xn (l : list N) : bool := bytes_beq (firstn 4 l) xn_prefix.

(* ".".join(labels) *)
Definition join_dot (ls : list (list N)) : list N :=
  match ls with
  | [] => []
  | h :: t => h ++ flat_map (fun l => 46 :: l) t
  end.

(* s.split(".") : never empty *)
Fixpoint split_dot (s : list N) : list (list N) :=
  match s with
  | [] => [[]]
  | b :: t =>
      if b =? 46 then [] :: split_dot t
      else match split_dot t with
           | h :: r => (b :: h) :: r
           | [] => [[b]]
           end
  end.

(* ------------------------------------------------------------------ stream reads *)

Definition rd (buf : list N) (pos n : nat) : list N * nat :=
  let d := firstn n (skipn pos buf) in (d, (pos + length d)%nat).

Definition rd_exact (buf : list N) (pos n : nat) : dres (list N * nat) :=
  let (d, p) := rd buf pos n in
  if (length d =? n)%nat then DOk (d, p) else DRaise EStruct.

(* ------------------------------------------------------------------ parse_domain_name *)

(* One iteration of `while buffer:` costs one unit of fuel.
   labels : list built so far; comp : compression_offset; visited : visited_offsets
   (a list used as a set: membership test before insertion). *)
Fixpoint parse_name_loop (fuel : nat) (buf : list N) (pos : nat) (labels : name)
         (comp : option nat) (visited : list nat) : dres (name * nat) :=
  match fuel with
  | O => DOutOfFuel
  | S f =>
      match nth_error buf pos with
      | None => DRaise EStruct                       (* unpack_stream(">B") at EOF *)
      | Some len =>
          let pos1 := S pos in
          if len =? 0 then
            DOk (labels, match comp with Some c => c | None => pos1 end)
          else
            let flags := len / 64 in
            if negb ((flags =? 0) || (flags =? 3)) then DRaise EAssert
            else if flags =? 3 then
              match nth_error buf pos1 with
              | None => DRaise EStruct               (* struct.unpack(">H") on one byte *)
              | Some lo =>
                  let t := N.to_nat ((len mod 64) * 256 + lo) in
                  if existsb (Nat.eqb t) visited then DRaise EValue
                  else parse_name_loop f buf t labels
                         (match comp with None => Some (S pos1) | Some c => Some c end)
                         (t :: visited)
              end
            else
              let (lab, pos2) := rd buf pos1 (N.to_nat len) in
              if is_xn lab then DRaise EIdna
              else if utf8_valid lab then parse_name_loop f buf pos2 (labels ++ [lab]) comp visited
              else DRaise EUnicode
      end
  end.

(* the fuel one name can need: (len+1)^2 - C05 proves it is never exhausted *)
Definition name_fuel (buf : list N) : nat := (S (length buf) * S (length buf))%nat.

(* So that the model stays cheap to evaluate, the loop is first run with len+2 units and the
   fuel is doubled while it does not suffice; DnsProofs.parse_name_eq proves that this is the
   same as one run with name_fuel units (fuel is only a bound). *)
Fixpoint parse_name_try (rounds f : nat) (buf : list N) (pos : nat) : dres (name * nat) :=
  match rounds with
  | O => parse_name_loop f buf pos [] None []
  | S r =>
      match parse_name_loop f buf pos [] None [] with
      | DOutOfFuel => parse_name_try r (f + f) buf pos
      | x => x
      end
  end.

Definition parse_name (buf : list N) (pos : nat) : dres (name * nat) :=
  parse_name_try (S (length buf)) (S (S (length buf))) buf pos.

(* what the code returns: the labels joined with "." *)
Definition parse_domain_name (buf : list N) (pos : nat) : dres (list N * nat) :=
  dlet r <- parse_name buf pos; DOk (join_dot (fst r), snd r).

(* ------------------------------------------------------------------ qname_encode *)

(* label.decode()[:-1].encode(): drop the last code point = the trailing continuation bytes
   and the lead byte before them *)
Fixpoint strip_cont (r : list N) : list N :=
  match r with
  | b :: t => if is_cont b then strip_cont t else r
  | [] => []
  end.
Definition drop_last_char (l : list N) : list N := rev (tl (strip_cont (rev l))).

(* while encoded_length > 63: ... *)
Fixpoint truncate63 (fuel : nat) (l : list N) : list N :=
  match fuel with
  | O => l
  | S f => if (63 <? length l)%nat then truncate63 f (drop_last_char l) else l
  end.

(* for label in labels: append length; break at the first empty label; extend *)
Fixpoint qenc_labels (labels : name) : list N :=
  match labels with
  | [] => []
  | l :: t =>
      let e := truncate63 (length l) l in
      N.of_nat (length e) :: (if (length e =? 0)%nat then [] else e ++ qenc_labels t)
  end.

Definition ends_empty (labels : name) : bool :=
  match rev labels with
  | [] :: _ => true
  | _ => false
  end.

(* qname_encode(sequence of labels) *)
Definition qname_encode (labels : name) : list N :=
  qenc_labels (if ends_empty labels then labels else labels ++ [[]]).

(* ServiceInstanceName.split_name + the label list qname_encode builds from it.
   `scan pre rest` is the `for index in range(len(labels) - 1)` loop; None = ValueError. *)
Definition tcp_udp (l : list N) : bool :=
  let x := map lower l in
  bytes_beq x [95; 116; 99; 112] || bytes_beq x [95; 117; 100; 112].   (* "_tcp" "_udp" *)
Definition starts_us (l : list N) : bool :=
  match l with 95 :: _ => true | _ => false end.

Fixpoint svc_scan (pre : name) (rest : name) : option name :=
  match rest with
  | l :: ((nx :: tl) as rest') =>
      if starts_us l && tcp_udp nx then
        Some ((match join_dot pre with [] => [] | inst => [inst] end)
              ++ [l; nx] ++ (match tl with [] => [[]] | _ => tl end))
      else svc_scan (pre ++ [l]) rest'
  | _ => None
  end.

Definition str_labels (s : list N) : name :=
  let ls := split_dot s in
  match svc_scan [] ls with
  | Some r => r
  | None => ls
  end.

(* qname_encode(str) *)
Definition qname_encode_str (s : list N) : list N := qname_encode (str_labels s).

(* ------------------------------------------------------------------ TXT, SRV, rdata *)

(* CaseInsensitiveDict.__setitem__ on an insertion-ordered dict *)
Fixpoint dset (k v : list N) (d : list (list N * list N)) : list (list N * list N) :=
  match d with
  | [] => [(k, v)]
  | (k', v') :: r => if bytes_beq k' k then (k', v) :: r else (k', v') :: dset k v r
  end.

(* chunk.split(b"=", 1) when b"=" in chunk *)
Fixpoint split_eq (c : list N) : option (list N * list N) :=
  match c with
  | [] => None
  | b :: t =>
      if b =? 61 then Some ([], t)
      else match split_eq t with
           | Some (k, v) => Some (b :: k, v)
           | None => None
           end
  end.

Definition txt := list (list N * list N).

Fixpoint parse_txt_loop (fuel : nat) (buf : list N) (pos stop : nat) (out : txt) : dres (txt * nat) :=
  if (pos <? stop)%nat then
    match fuel with
    | O => DOutOfFuel
    | S f =>
        match nth_error buf pos with
        | None => DRaise EStruct
        | Some len =>
            let (chunk, pos2) := rd buf (S pos) (N.to_nat len) in
            match split_eq chunk with
            | None =>
                if forallb is_ascii chunk
                then parse_txt_loop f buf pos2 stop (dset (map lower chunk) [] out)
                else DRaise EUnicode
            | Some (k, v) =>
                match k with
                | [] => parse_txt_loop f buf pos2 stop out
                | _ => if forallb is_ascii k
                       then parse_txt_loop f buf pos2 stop (dset (map lower k) v out)
                       else parse_txt_loop f buf pos2 stop out
                end
            end
        end
    end
  else DOk (out, pos).

Definition parse_txt (buf : list N) (pos length : nat) : dres (txt * nat) :=
  parse_txt_loop length buf pos (pos + length)%nat [].

Inductive rdata :=
| RA (d : list N)                       (* str(IPv4Address(4 bytes)) *)
| RName (n : list N)                    (* PTR: the dotted name, a str *)
| RTxt (t : txt)
| RSrv (prio weight port : N) (target : list N)
| RRaw (b : list N).

Definition parse_srv (buf : list N) (pos : nat) : dres (rdata * nat) :=
  dlet h <- rd_exact buf pos 6;
  let d := fst h in
  dlet r <- parse_domain_name buf (snd h);
  DOk (RSrv (be_dec (firstn 2 d)) (be_dec (firstn 2 (skipn 2 d))) (be_dec (skipn 4 d)) (fst r), snd r).

Definition parse_rdata (qtype : N) (buf : list N) (pos length : nat) : dres (rdata * nat) :=
  if qtype =? 1 then
    if negb (length =? 4)%nat then DRaise EValue
    else let (d, p) := rd buf pos 4 in
         if (List.length d =? 4)%nat then DOk (RA d, p) else DRaise EAddr
  else if qtype =? 12 then
    dlet r <- parse_domain_name buf pos; DOk (RName (fst r), snd r)
  else if qtype =? 16 then
    dlet r <- parse_txt buf pos length; DOk (RTxt (fst r), snd r)
  else if qtype =? 33 then parse_srv buf pos
  else let (d, p) := rd buf pos length in DOk (RRaw d, p).

(* ------------------------------------------------------------------ question / resource / message *)

(* names in questions and records are `str`s: unpack yields ".".join(labels), pack takes the
   str form of qname_encode *)
Inductive question := Q (qname : list N) (qtype qclass : N).
Inductive resource := R (rname : list N) (rtype rclass ttl rdlen : N) (rd : rdata).
Inductive msg := M (id flags : N) (qs : list question) (an ns ar : list resource).

Definition parse_question (buf : list N) (pos : nat) : dres (question * nat) :=
  dlet r <- parse_domain_name buf pos;
  dlet h <- rd_exact buf (snd r) 4;
  let d := fst h in
  DOk (Q (fst r) (be_dec (firstn 2 d)) (be_dec (skipn 2 d)), snd h).

Definition parse_resource (buf : list N) (pos : nat) : dres (resource * nat) :=
  dlet r <- parse_domain_name buf pos;
  dlet h <- rd_exact buf (snd r) 10;
  let d := fst h in
  let qtype := be_dec (firstn 2 d) in
  let qclass := be_dec (firstn 2 (skipn 2 d)) in
  let ttl := be_dec (firstn 4 (skipn 4 d)) in
  let rdlen := be_dec (skipn 8 d) in
  let before := snd h in
  dlet x <- parse_rdata qtype buf before (N.to_nat rdlen);
  if (snd x =? before + N.to_nat rdlen)%nat
  then DOk (R (fst r) qtype qclass ttl rdlen (fst x), snd x)
  else DRaise EAssert.

(* `extend(one(buffer) for _ in range(n))` *)
Fixpoint parse_many {A} (one : nat -> dres (A * nat)) (n : nat) (pos : nat) : dres (list A * nat) :=
  match n with
  | O => DOk ([], pos)
  | S n' =>
      dlet x <- one pos;
      dlet r <- parse_many one n' (snd x);
      DOk (fst x :: fst r, snd r)
  end.

(* DnsMessage().unpack(msg) *)
Definition unpack_msg (buf : list N) : dres msg :=
  dlet h <- rd_exact buf 0 12;
  let d := fst h in
  let f i := be_dec (firstn 2 (skipn (2 * i) d)) in
  dlet qs <- parse_many (parse_question buf) (N.to_nat (f 2%nat)) (snd h);
  dlet an <- parse_many (parse_resource buf) (N.to_nat (f 3%nat)) (snd qs);
  dlet ns <- parse_many (parse_resource buf) (N.to_nat (f 4%nat)) (snd an);
  dlet ar <- parse_many (parse_resource buf) (N.to_nat (f 5%nat)) (snd ns);
  DOk (M (f 0%nat) (f 1%nat) (fst qs) (fst an) (fst ns) (fst ar)).

(* struct.pack(">H"/">I", v): struct.error when out of range *)
Definition pack_be (k : nat) (v : N) : dres (list N) :=
  if v <? 256 ^ N.of_nat k then DOk (be_enc k v) else DRaise EStruct.

Definition pack_question (q : question) : dres (list N) :=
  match q with
  | Q n t c =>
      dlet a <- pack_be 2 t; dlet b <- pack_be 2 c;
      DOk (qname_encode_str n ++ a ++ b)
  end.

(* answers: rd is a name, written with qname_encode; rd_length is recomputed *)
Definition pack_answer (r : resource) : dres (list N) :=
  match r with
  | R n t c ttl _ (RName target) =>
      let data := qname_encode_str target in
      dlet a <- pack_be 2 t; dlet b <- pack_be 2 c; dlet d <- pack_be 4 ttl;
      dlet e <- pack_be 2 (N.of_nat (length data));
      DOk (qname_encode_str n ++ a ++ b ++ d ++ e ++ data)
  | _ => DRaise EType
  end.

(* authorities / additional resources: rd is raw bytes *)
Definition pack_resource (r : resource) : dres (list N) :=
  match r with
  | R n t c ttl _ (RRaw data) =>
      dlet a <- pack_be 2 t; dlet b <- pack_be 2 c; dlet d <- pack_be 4 ttl;
      dlet e <- pack_be 2 (N.of_nat (length data));
      DOk (qname_encode_str n ++ a ++ b ++ d ++ e ++ data)
  | _ => DRaise EType
  end.

Fixpoint pack_list {A} (f : A -> dres (list N)) (l : list A) : dres (list N) :=
  match l with
  | [] => DOk []
  | x :: t => dlet a <- f x; dlet b <- pack_list f t; DOk (a ++ b)
  end.

Definition pack_header (id flags nq nan nns nar : N) : dres (list N) :=
  dlet a <- pack_be 2 id; dlet b <- pack_be 2 flags; dlet c <- pack_be 2 nq;
  dlet d <- pack_be 2 nan; dlet e <- pack_be 2 nns; dlet f <- pack_be 2 nar;
  DOk (a ++ b ++ c ++ d ++ e ++ f).

(* DnsMessage.pack() *)
Definition pack_msg (m : msg) : dres (list N) :=
  match m with
  | M id flags qs an ns ar =>
      dlet h <- pack_header id flags (N.of_nat (length qs)) (N.of_nat (length an))
                            (N.of_nat (length ns)) (N.of_nat (length ar));
      dlet a <- pack_list pack_question qs;
      dlet b <- pack_list pack_answer an;
      dlet c <- pack_list pack_resource ns;
      dlet d <- pack_list pack_resource ar;
      DOk (h ++ a ++ b ++ c ++ d)
  end.

(* ------------------------------------------------------------------ correspondence *)

(* Canonical, injective flattening of results into `list N` (numbers are not bounded by 255;
   every variable-length part carries its length).  The harness computes the same form from
   what the implementation returned. *)
Definition c_bytes (b : list N) : list N := N.of_nat (length b) :: b.
Definition c_name (n : list N) : list N := c_bytes n.
Definition c_txt (t : txt) : list N :=
  N.of_nat (length t) :: flat_map (fun kv => c_bytes (fst kv) ++ c_bytes (snd kv)) t.
Definition c_rdata (r : rdata) : list N :=
  match r with
  | RA d => 1 :: c_bytes d
  | RName n => 2 :: c_name n
  | RTxt t => 3 :: c_txt t
  | RSrv p w port n => 4 :: p :: w :: port :: c_name n
  | RRaw b => 5 :: c_bytes b
  end.
Definition c_question (q : question) : list N :=
  match q with Q n t c => c_name n ++ [t; c] end.
Definition c_resource (r : resource) : list N :=
  match r with R n t c ttl l d => c_name n ++ [t; c; ttl; l] ++ c_rdata d end.
Definition c_msg (m : msg) : list N :=
  match m with
  | M id flags qs an ns ar =>
      [id; flags; N.of_nat (length qs)] ++ flat_map c_question qs
      ++ [N.of_nat (length an)] ++ flat_map c_resource an
      ++ [N.of_nat (length ns)] ++ flat_map c_resource ns
      ++ [N.of_nat (length ar)] ++ flat_map c_resource ar
  end.

Definition derr_beq (a b : derr) : bool :=
  match a, b with
  | EStruct, EStruct | EAssert, EAssert | EValue, EValue | EUnicode, EUnicode
  | EAddr, EAddr | EType, EType | EIdna, EIdna => true
  | _, _ => false
  end.

(* Packed transport of a byte string, used only for the few multi-kilobyte buffers of check_name_k:
   (length, big-endian number), unpacked with shifts and masks. *)
Fixpoint le_bytes (k : nat) (n : N) : list N :=
  match k with
  | O => []
  | S k' => N.land n 255 :: le_bytes k' (N.shiftr n 8)
  end.
Definition unpk (c : nat * N) : list N := rev (le_bytes (fst c) (snd c)).

(* expected outcome as reported by the harness *)
Inductive expect := XOk (canon : list N) | XRaise (e : derr).

(* a model answer EIdna means "outside the model": accepted whatever the implementation did
   (the harness counts these separately and keeps them rare) *)
Definition agree (r : dres (list N)) (x : expect) : bool :=
  match r, x with
  | DRaise EIdna, _ => true
  | DOk a, XOk b => bytes_beq a b
  | DRaise e, XRaise e' => derr_beq e e'
  | _, _ => false
  end.

Definition dmap {A B} (f : A -> B) (r : dres A) : dres B := dlet a <- r; DOk (f a).

(* parse_domain_name on (buf, pos): joined name and final stream position *)
Definition finished {A} (r : dres A) : bool := match r with DOutOfFuel => false | _ => true end.

(* the implementation made exactly k iterations of the `while buffer:` loop (k = 0: not recorded) *)
Definition steps_ok (buf : list N) (pos k : nat) : bool :=
  match k with
  | O => true
  | S k' => finished (parse_name_loop k buf pos [] None []) &&
            negb (finished (parse_name_loop k' buf pos [] None []))
  end.

(* parse_domain_name on (buf, pos): joined name, final stream position, loop iterations *)
Definition check_name (c : list N * nat * nat * expect) : bool :=
  let '(buf, pos, k, x) := c in
  agree (dmap (fun r => c_bytes (fst r) ++ [N.of_nat (snd r)]) (parse_domain_name buf pos)) x
  && steps_ok buf pos k.

(* the same on a buffer of several thousand bytes, transported packed, with the fuel chosen by the
   harness (the number of iterations the implementation made): by C05_dns_fuel_irrelevant and
   C05_dns_parse_name_fuel_enough a finished run with k units is the answer of parse_name *)
Definition check_name_k (c : (nat * N) * nat * nat * expect) : bool :=
  let '(pk, pos, k, x) := c in
  let buf := unpk pk in
  agree (dmap (fun r => c_bytes (join_dot (fst r)) ++ [N.of_nat (snd r)])
              (parse_name_loop k buf pos [] None [])) x
  && steps_ok buf pos k.

Definition check_qenc (c : name * list N) : bool := bytes_beq (qname_encode (fst c)) (snd c).
Definition check_qenc_str (c : list N * list N) : bool := bytes_beq (qname_encode_str (fst c)) (snd c).

Definition check_txt (c : list N * nat * nat * expect) : bool :=
  let '(buf, pos, len, x) := c in
  agree (dmap (fun r => c_txt (fst r) ++ [N.of_nat (snd r)]) (parse_txt buf pos len)) x.

Definition check_unpack (c : list N * expect) : bool :=
  agree (dmap c_msg (unpack_msg (fst c))) (snd c).

Definition check_pack (c : msg * expect) : bool := agree (pack_msg (fst c)) (snd c).
