(* C04 / C05 - model of pyatv/support/opack.py (as fixed by f2b1e52): _pack / _unpack,
   branch for branch, including the branches that raise.

   Values.  Python object            model
            None                     VNone
            bool                     VBool b            (tested BEFORE int: bool is an int subclass)
            uuid.UUID                VUUID u            (u = UUID.bytes, 16 bytes)
            int                      VInt z 0
            int_<n>b (sized int,     VInt z n           (n = the `size` attribute; `not size_hint`
              made by _sized_int)                        is modelled as n = 0)
            float                    VFloat bits        (bits = struct.pack("<d", x), so NaN payloads
                                                         and -0.0 are just bytes)
            str                      VStr s             (s = x.encode("utf-8"))
            bytes                    VBytes s
            list                     VList l
            dict                     VDict kv           (insertion-ordered association list)

   Not modelled: datetime (pack raises NotImplementedError), objects of other types (pack raises
   TypeError), CPython's recursion limit (nesting deeper than ~1000 raises RecursionError in both
   directions), identity of NaN objects used as dict keys (the model never identifies two NaN keys;
   CPython identifies a NaN key with a back-reference to the very same object).

   Bytes are `list N`; slices never raise in Python (they silently truncate), so every slice is
   takeN/dropN.  No N.to_nat is applied to a number read from the wire. *)
From Coq Require Import NArith ZArith List Bool Lia.
From PV Require Import Common.Cases Common.Endian.
Import ListNotations.
Local Open Scope N_scope.

Definition bytes := list N.

Inductive value :=
| VNone
| VBool (b : bool)
| VInt (z : Z) (hint : N)
| VFloat (bits : bytes)
| VStr (s : bytes)
| VBytes (s : bytes)
| VUUID (u : bytes)
| VList (l : list value)
| VDict (kv : list (value * value)).

Inductive err := IndexError | TypeError | ValueError | StructError | UnicodeDecodeError | OverflowError.

Inductive res (A : Type) := Ok (a : A) | Raise (e : err) | OutOfFuel.
Arguments Ok {A} a.
Arguments Raise {A} e.
Arguments OutOfFuel {A}.

(* ------------------------------------------------------------------ slices *)

Fixpoint takeN {A} (n : N) (l : list A) : list A :=
  match l with
  | [] => []
  | x :: t => if n =? 0 then [] else x :: takeN (N.pred n) t
  end.

Fixpoint dropN {A} (n : N) (l : list A) : list A :=
  match l with
  | [] => []
  | x :: t => if n =? 0 then l else dropN (N.pred n) t
  end.

Fixpoint nthN {A} (l : list A) (n : N) : option A :=
  match l with
  | [] => None
  | x :: t => if n =? 0 then Some x else nthN t (N.pred n)
  end.

Definition lenN {A} (l : list A) : N := N.of_nat (length l).

(* ------------------------------------------------------------------ pack *)

(* int.to_bytes(k, "little") - unsigned: negative or too large raises OverflowError *)
Definition to_le (k : nat) (z : Z) : res bytes :=
  if (z <? 0)%Z || (Z.of_N (256 ^ N.of_nat k) <=? z)%Z then Raise OverflowError
  else Ok (le_enc k (Z.to_N z)).

Definition prefix (b : N) (r : res bytes) : res bytes :=
  match r with Ok l => Ok (b :: l) | Raise e => Raise e | OutOfFuel => OutOfFuel end.

(* the `isinstance(data, int)` branch; a final None falls into len(None) -> TypeError *)
Definition pack_int (z : Z) (h : N) : res bytes :=
  if (z <? -1)%Z then Raise ValueError
  else if (z <? 0x28)%Z && (h =? 0) then Ok [Z.to_N (z + 8)]
  else if ((z <=? 0xFF)%Z && (h =? 0)) || (h =? 1) then prefix 0x30 (to_le 1 z)
  else if ((z <=? 0xFFFF)%Z && (h =? 0)) || (h =? 2) then prefix 0x31 (to_le 2 z)
  else if ((z <=? 0xFFFFFFFF)%Z && (h =? 0)) || (h =? 4) then prefix 0x32 (to_le 4 z)
  else if (z <=? 0xFFFFFFFFFFFFFFFF)%Z then prefix 0x33 (to_le 8 z)
  else Raise TypeError.

Definition pack_str (s : bytes) : res bytes :=
  let n := lenN s in
  if n <=? 0x20 then Ok ((0x40 + n) :: s)
  else if n <=? 0xFF then Ok (0x61 :: le_enc 1 n ++ s)
  else if n <=? 0xFFFF then Ok (0x62 :: le_enc 2 n ++ s)
  else if n <=? 0xFFFFFF then Ok (0x63 :: le_enc 3 n ++ s)
  else if n <=? 0xFFFFFFFF then Ok (0x64 :: le_enc 4 n ++ s)
  else Raise TypeError.

Definition pack_bytes (s : bytes) : res bytes :=
  let n := lenN s in
  if n <=? 0x20 then Ok ((0x70 + n) :: s)
  else if n <=? 0xFF then Ok (0x91 :: le_enc 1 n ++ s)
  else if n <=? 0xFFFF then Ok (0x92 :: le_enc 2 n ++ s)
  else if n <=? 0xFFFFFFFF then Ok (0x93 :: le_enc 4 n ++ s)
  else if n <=? 0xFFFFFFFFFFFFFFFF then Ok (0x94 :: le_enc 8 n ++ s)
  else Raise TypeError.

(* encoding of a non-container object before the pointer step; None for containers *)
Definition leaf_bytes (v : value) : option (res bytes) :=
  match v with
  | VNone => Some (Ok [4])
  | VBool b => Some (Ok [if b then 1 else 2])
  | VUUID u => Some (Ok (5 :: u))
  | VInt z h => Some (pack_int z h)
  | VFloat bits => Some (Ok (0x36 :: bits))
  | VStr s => Some (pack_str s)
  | VBytes s => Some (pack_bytes s)
  | VList _ | VDict _ => None
  end.

Definition ptable := list bytes.

(* object_list.index(packed_bytes) *)
Fixpoint index_of (e : bytes) (l : ptable) : option N :=
  match l with
  | [] => None
  | x :: t => if bytes_beq x e then Some 0 else option_map N.succ (index_of e t)
  end.

(* NOTE 0xC3 is followed by 4 and 0xC4 by 8 index bytes here, while _unpack (and the
   documentation) read 3 and 4: see OpackProofs.ptr_index_mismatch. *)
Definition pack_ptr (i : N) (e : bytes) : bytes :=
  if i <? 0x21 then [0xA0 + i]
  else if i <=? 0xFF then 0xC1 :: le_enc 1 i
  else if i <=? 0xFFFF then 0xC2 :: le_enc 2 i
  else if i <=? 0xFFFFFFFF then 0xC3 :: le_enc 4 i
  else if i <=? 0xFFFFFFFFFFFFFFFF then 0xC4 :: le_enc 8 i
  else e.

(* "Containers and single byte objects are never referred to by pointers";
   "Reuse if in object list, otherwise add it to list" *)
Definition finish_leaf (e : bytes) (pt : ptable) : bytes * ptable :=
  if (length e =? 1)%nat then (e, pt)
  else match index_of e pt with
       | Some i => (pack_ptr i e, pt)
       | None => (e, pt ++ [e])
       end.

Definition packer := value -> ptable -> res (bytes * ptable).

(* b"".join(_pack(x, object_list) for x in data) *)
Definition pack_seq (f : packer) : list value -> ptable -> res (bytes * ptable) :=
  fix go (l : list value) (pt : ptable) : res (bytes * ptable) :=
    match l with
    | [] => Ok ([], pt)
    | x :: t =>
        match f x pt with
        | Ok (b1, pt1) =>
            match go t pt1 with
            | Ok (b2, pt2) => Ok (b1 ++ b2, pt2)
            | Raise e => Raise e
            | OutOfFuel => OutOfFuel
            end
        | Raise e => Raise e
        | OutOfFuel => OutOfFuel
        end
    end.

(* b"".join(_pack(k, object_list) + _pack(v, object_list) for k, v in data.items()) *)
Definition pack_seq_kv (f : packer) : list (value * value) -> ptable -> res (bytes * ptable) :=
  fix go (l : list (value * value)) (pt : ptable) : res (bytes * ptable) :=
    match l with
    | [] => Ok ([], pt)
    | (k, v) :: t =>
        match f k pt with
        | Ok (b1, pt1) =>
            match f v pt1 with
            | Ok (b2, pt2) =>
                match go t pt2 with
                | Ok (b3, pt3) => Ok (b1 ++ b2 ++ b3, pt3)
                | Raise e => Raise e
                | OutOfFuel => OutOfFuel
                end
            | Raise e => Raise e
            | OutOfFuel => OutOfFuel
            end
        | Raise e => Raise e
        | OutOfFuel => OutOfFuel
        end
    end.

(* bytes([0xD0 + min(len(data), 0xF)]) + body (+ b"\x03" if len(data) >= 0xF) *)
Definition wrap (base : N) (n : N) (body : bytes) : bytes :=
  (base + N.min n 0xF) :: body ++ (if 0xF <=? n then [3] else []).

Fixpoint pack_v (v : value) (pt : ptable) {struct v} : res (bytes * ptable) :=
  match v with
  | VList l =>
      match pack_seq pack_v l pt with
      | Ok (body, pt') => Ok (wrap 0xD0 (lenN l) body, pt')
      | Raise e => Raise e
      | OutOfFuel => OutOfFuel
      end
  | VDict kv =>
      match pack_seq_kv pack_v kv pt with
      | Ok (body, pt') => Ok (wrap 0xE0 (lenN kv) body, pt')
      | Raise e => Raise e
      | OutOfFuel => OutOfFuel
      end
  | _ =>
      match leaf_bytes v with
      | Some (Ok e) => Ok (finish_leaf e pt)
      | Some (Raise e) => Raise e
      | _ => Raise TypeError
      end
  end.

(* pack(data) = _pack(data, []) *)
Definition pack (v : value) : res bytes :=
  match pack_v v [] with
  | Ok (bs, _) => Ok bs
  | Raise e => Raise e
  | OutOfFuel => OutOfFuel
  end.

(* ------------------------------------------------------------------ unpack helpers *)

(* bytes.decode("utf-8"), strict: no overlong forms, no surrogates, nothing above U+10FFFF *)
Definition cont (b : N) : bool := (0x80 <=? b) && (b <=? 0xBF).
Fixpoint utf8_valid (l : bytes) : bool :=
  match l with
  | [] => true
  | b0 :: t =>
      if b0 <? 0x80 then utf8_valid t
      else if b0 <? 0xC2 then false
      else if b0 <? 0xE0 then
        match t with
        | b1 :: t' => cont b1 && utf8_valid t'
        | _ => false
        end
      else if b0 <? 0xF0 then
        match t with
        | b1 :: b2 :: t' =>
            (if b0 =? 0xE0 then (0xA0 <=? b1) && (b1 <=? 0xBF)
             else if b0 =? 0xED then (0x80 <=? b1) && (b1 <=? 0x9F)
             else cont b1) && cont b2 && utf8_valid t'
        | _ => false
        end
      else if b0 <? 0xF5 then
        match t with
        | b1 :: b2 :: b3 :: t' =>
            (if b0 =? 0xF0 then (0x90 <=? b1) && (b1 <=? 0xBF)
             else if b0 =? 0xF4 then (0x80 <=? b1) && (b1 <=? 0x8F)
             else cont b1) && cont b2 && cont b3 && utf8_valid t'
        | _ => false
        end
      else false
  end.

(* struct.unpack("<f", ...)[0] seen as binary64 bits: exact widening; a signalling NaN comes out
   quiet with its payload kept (x86-64 cvtss2sd) *)
Definition widen32 (w : N) : N :=
  let s := w / 2 ^ 31 in
  let e := (w / 2 ^ 23) mod 256 in
  let m := w mod 2 ^ 23 in
  let hi := s * 2 ^ 63 in
  if e =? 255 then
    hi + 2047 * 2 ^ 52 +
    (if m =? 0 then 0 else if m / 2 ^ 22 =? 1 then m * 2 ^ 29 else m * 2 ^ 29 + 2 ^ 51)
  else if e =? 0 then
    if m =? 0 then hi
    else let p := N.log2 m in hi + (p + 874) * 2 ^ 52 + (m - 2 ^ p) * 2 ^ (52 - p)
  else hi + (e + 896) * 2 ^ 52 + m * 2 ^ 29.

(* the integer a binary64 is equal to, if any (int == float is exact in Python) *)
Definition float_int (bits : bytes) : option Z :=
  let w := le_dec bits in
  let s := w / 2 ^ 63 in
  let e := (w / 2 ^ 52) mod 2048 in
  let m := w mod 2 ^ 52 in
  let sg (x : N) : Z := if s =? 0 then Z.of_N x else (- Z.of_N x)%Z in
  if e =? 2047 then None
  else if e =? 0 then (if m =? 0 then Some 0%Z else None)
  else
    let mant := m + 2 ^ 52 in
    if 1075 <=? e then Some (sg (mant * 2 ^ (e - 1075)))
    else let d := 2 ^ (1075 - e) in
         if mant mod d =? 0 then Some (sg (mant / d)) else None.

Definition is_nan (bits : bytes) : bool :=
  let w := le_dec bits in ((w / 2 ^ 52) mod 2048 =? 2047) && negb (w mod 2 ^ 52 =? 0).

(* Python `==`/hash on objects usable as dict keys: True == 1 == 1.0 == int_1b(1) *)
Definition num_of (v : value) : option Z :=
  match v with
  | VBool b => Some (if b then 1 else 0)%Z
  | VInt z _ => Some z
  | VFloat bits => float_int bits
  | _ => None
  end.

Definition key_eq (a b : value) : bool :=
  match num_of a, num_of b with
  | Some x, Some y => (x =? y)%Z
  | _, _ =>
      match a, b with
      | VNone, VNone => true
      | VStr s, VStr t => bytes_beq s t
      | VBytes s, VBytes t => bytes_beq s t
      | VUUID s, VUUID t => bytes_beq s t
      | VFloat s, VFloat t => bytes_beq s t && negb (is_nan s)
      | _, _ => false
      end
  end.

(* hash(key) raises TypeError for list and dict *)
Definition hashable (v : value) : bool :=
  match v with VList _ | VDict _ => false | _ => true end.

(* output[key] = value: an equal key keeps its place and its first key object *)
Fixpoint dict_set (d : list (value * value)) (k v : value) : list (value * value) :=
  match d with
  | [] => [(k, v)]
  | (k', v') :: t => if key_eq k' k then (k', v) :: t else (k', v') :: dict_set t k v
  end.

Definition mk_dict (pairs : list (value * value)) : list (value * value) :=
  fold_left (fun d kv => dict_set d (fst kv) (snd kv)) pairs [].

Definition utable := list (bytes * value).

(* encoded = bytes(data[: len(data) - len(remaining)]) *)
Definition consumed (data remaining : bytes) : bytes :=
  firstn (length data - length remaining) data.

(* if len(encoded) > 1 and all(encoded != obj[0] for obj in object_list): append *)
Definition table_add (e : bytes) (v : value) (t : utable) : utable :=
  if (1 <? length e)%nat && negb (existsb (fun o => bytes_beq e (fst o)) t)
  then t ++ [(e, v)] else t.

(* The branches of _unpack that neither recurse nor read the object list, in source order.
   Argument: first byte b and data[1:].  Result: value, remaining, add_to_object_list.
   None = none of these branches matches. *)
Definition unpack_leaf (b : N) (rest : bytes) : option (res (value * bytes * bool)) :=
  if b =? 0x01 then Some (Ok (VBool true, rest, false))
  else if b =? 0x02 then Some (Ok (VBool false, rest, false))
  else if b =? 0x04 then Some (Ok (VNone, rest, false))
  else if b =? 0x05 then
    (* UUID(bytes=...) raises ValueError unless it gets 16 bytes *)
    let u := takeN 16 rest in
    Some (if lenN u =? 16 then Ok (VUUID u, dropN 16 rest, true) else Raise ValueError)
  else if b =? 0x06 then
    Some (Ok (VInt (Z.of_N (le_dec (takeN 8 rest))) 0, dropN 8 rest, true))
  else if (0x07 <=? b) && (b <=? 0x2F) then
    Some (Ok (VInt (Z.of_N b - 8) 0, rest, false))
  else if b =? 0x35 then
    let f := takeN 4 rest in
    Some (if lenN f =? 4 then Ok (VFloat (le_enc 8 (widen32 (le_dec f))), dropN 4 rest, true)
          else Raise StructError)
  else if b =? 0x36 then
    let f := takeN 8 rest in
    Some (if lenN f =? 8 then Ok (VFloat f, dropN 8 rest, true) else Raise StructError)
  else if b / 16 =? 3 then
    let nb := 2 ^ (b mod 16) in
    Some (Ok (VInt (Z.of_N (le_dec (takeN nb rest))) nb, dropN nb rest, true))
  else if (0x40 <=? b) && (b <=? 0x60) then
    let len := b - 0x40 in
    let s := takeN len rest in
    Some (if utf8_valid s then Ok (VStr s, dropN len rest, true) else Raise UnicodeDecodeError)
  else if (0x60 <? b) && (b <=? 0x64) then
    let nb := b mod 16 in
    let len := le_dec (takeN nb rest) in
    let s := takeN len (dropN nb rest) in
    Some (if utf8_valid s then Ok (VStr s, dropN len (dropN nb rest), true)
          else Raise UnicodeDecodeError)
  else if (0x70 <=? b) && (b <=? 0x90) then
    let len := b - 0x70 in
    Some (Ok (VBytes (takeN len rest), dropN len rest, true))
  else if (0x91 <=? b) && (b <=? 0x94) then
    let nb := 2 ^ (b mod 16 - 1) in
    let len := le_dec (takeN nb rest) in
    Some (Ok (VBytes (takeN len (dropN nb rest)), dropN len (dropN nb rest), true))
  else None.

Definition ures := res (value * bytes * utable).
Definition rec_t := bytes -> utable -> ures.

(* for _ in range(count): value, ptr = _unpack(ptr, object_list); output.append(value) *)
Fixpoint unpack_n (rec : rec_t) (n : nat) (ptr : bytes) (t : utable) : res (list value * bytes * utable) :=
  match n with
  | O => Ok ([], ptr, t)
  | S n' =>
      match rec ptr t with
      | Ok (v, ptr', t') =>
          match unpack_n rec n' ptr' t' with
          | Ok (vs, p, t'') => Ok (v :: vs, p, t'')
          | Raise e => Raise e
          | OutOfFuel => OutOfFuel
          end
      | Raise e => Raise e
      | OutOfFuel => OutOfFuel
      end
  end.

(* while ptr[0] != 0x03: ...; ptr = ptr[1:]      (n bounds the number of iterations) *)
Fixpoint unpack_endless (rec : rec_t) (n : nat) (ptr : bytes) (t : utable) : res (list value * bytes * utable) :=
  match n with
  | O => OutOfFuel
  | S n' =>
      match ptr with
      | [] => Raise IndexError
      | b :: r =>
          if b =? 3 then Ok ([], r, t)
          else
            match rec ptr t with
            | Ok (v, ptr', t') =>
                match unpack_endless rec n' ptr' t' with
                | Ok (vs, p, t'') => Ok (v :: vs, p, t'')
                | Raise e => Raise e
                | OutOfFuel => OutOfFuel
                end
            | Raise e => Raise e
            | OutOfFuel => OutOfFuel
            end
      end
  end.

(* key, ptr = _unpack(...); value, ptr = _unpack(...); output[key] = value *)
Definition unpack_pair (rec : rec_t) (ptr : bytes) (t : utable) : res (value * value * bytes * utable) :=
  match rec ptr t with
  | Ok (k, ptr1, t1) =>
      match rec ptr1 t1 with
      | Ok (v, ptr2, t2) => if hashable k then Ok (k, v, ptr2, t2) else Raise TypeError
      | Raise e => Raise e
      | OutOfFuel => OutOfFuel
      end
  | Raise e => Raise e
  | OutOfFuel => OutOfFuel
  end.

Fixpoint unpack_n_kv (rec : rec_t) (n : nat) (ptr : bytes) (t : utable)
  : res (list (value * value) * bytes * utable) :=
  match n with
  | O => Ok ([], ptr, t)
  | S n' =>
      match unpack_pair rec ptr t with
      | Ok (k, v, ptr', t') =>
          match unpack_n_kv rec n' ptr' t' with
          | Ok (kvs, p, t'') => Ok ((k, v) :: kvs, p, t'')
          | Raise e => Raise e
          | OutOfFuel => OutOfFuel
          end
      | Raise e => Raise e
      | OutOfFuel => OutOfFuel
      end
  end.

Fixpoint unpack_endless_kv (rec : rec_t) (n : nat) (ptr : bytes) (t : utable)
  : res (list (value * value) * bytes * utable) :=
  match n with
  | O => OutOfFuel
  | S n' =>
      match ptr with
      | [] => Raise IndexError
      | b :: r =>
          if b =? 3 then Ok ([], r, t)
          else
            match unpack_pair rec ptr t with
            | Ok (k, v, ptr', t') =>
                match unpack_endless_kv rec n' ptr' t' with
                | Ok (kvs, p, t'') => Ok ((k, v) :: kvs, p, t'')
                | Raise e => Raise e
                | OutOfFuel => OutOfFuel
                end
            | Raise e => Raise e
            | OutOfFuel => OutOfFuel
            end
      end
  end.

(* _unpack(data, object_list); fuel bounds the nesting depth and the iterations of each
   `while ptr[0] != 0x03` loop *)
Fixpoint unpack_f (fuel : nat) (data : bytes) (t : utable) : ures :=
  match fuel with
  | O => OutOfFuel
  | S f =>
      match data with
      | [] => Raise IndexError                                       (* data[0] *)
      | b :: rest =>
          match unpack_leaf b rest with
          | Some (Ok (v, remaining, add)) =>
              Ok (v, remaining, if add then table_add (consumed data remaining) v t else t)
          | Some (Raise e) => Raise e
          | Some OutOfFuel => OutOfFuel
          | None =>
              if b / 16 =? 0xD then                                  (* (data[0] & 0xF0) == 0xD0 *)
                match (if b mod 16 =? 0xF then unpack_endless (unpack_f f) f rest t
                       else unpack_n (unpack_f f) (N.to_nat (b mod 16)) rest t) with
                | Ok (vs, p, t') => Ok (VList vs, p, t')
                | Raise e => Raise e
                | OutOfFuel => OutOfFuel
                end
              else if 0xE0 <=? b then                                (* (data[0] & 0xE0) == 0xE0 *)
                match (if b mod 16 =? 0xF then unpack_endless_kv (unpack_f f) f rest t
                       else unpack_n_kv (unpack_f f) (N.to_nat (b mod 16)) rest t) with
                | Ok (kvs, p, t') => Ok (VDict (mk_dict kvs), p, t')
                | Raise e => Raise e
                | OutOfFuel => OutOfFuel
                end
              else if (0xA0 <=? b) && (b <=? 0xC0) then
                match nthN t (b - 0xA0) with
                | Some (_, v) => Ok (v, rest, t)
                | None => Raise IndexError
                end
              else if (0xC1 <=? b) && (b <=? 0xC4) then
                let len := b - 0xC0 in
                match nthN t (le_dec (takeN len rest)) with
                | Some (_, v) => Ok (v, dropN len rest, t)
                | None => Raise IndexError
                end
              else Raise TypeError
          end
      end
  end.

(* unpack(data) = _unpack(data, []) -> (value, remaining) *)
Definition unpack (data : bytes) : res (value * bytes) :=
  match unpack_f (S (length data)) data [] with
  | Ok (v, r, _) => Ok (v, r)
  | Raise e => Raise e
  | OutOfFuel => OutOfFuel
  end.

(* ------------------------------------------------------------------ correspondence cases *)

Fixpoint value_beq (a b : value) {struct a} : bool :=
  match a, b with
  | VNone, VNone => true
  | VBool x, VBool y => Bool.eqb x y
  | VInt x h, VInt y g => (x =? y)%Z && (h =? g)
  | VFloat x, VFloat y => bytes_beq x y
  | VStr x, VStr y => bytes_beq x y
  | VBytes x, VBytes y => bytes_beq x y
  | VUUID x, VUUID y => bytes_beq x y
  | VList x, VList y =>
      (fix go (x y : list value) : bool :=
         match x, y with
         | [], [] => true
         | p :: x', q :: y' => value_beq p q && go x' y'
         | _, _ => false
         end) x y
  | VDict x, VDict y =>
      (fix go (x y : list (value * value)) : bool :=
         match x, y with
         | [], [] => true
         | (k, v) :: x', (k', v') :: y' => value_beq k k' && value_beq v v' && go x' y'
         | _, _ => false
         end) x y
  | _, _ => false
  end.

Definition err_beq (a b : err) : bool :=
  match a, b with
  | IndexError, IndexError | TypeError, TypeError | ValueError, ValueError
  | StructError, StructError | UnicodeDecodeError, UnicodeDecodeError
  | OverflowError, OverflowError => true
  | _, _ => false
  end.

(* one observed run of the implementation *)
Inductive ocase :=
| CPack (v : value) (out : res bytes)                 (* pack(v) returned / raised *)
| CUnpack (data : bytes) (out : res (value * bytes)). (* unpack(data) returned / raised *)

Definition check_case (c : ocase) : bool :=
  match c with
  | CPack v out =>
      match pack v, out with
      | Ok a, Ok b => bytes_beq a b
      | Raise a, Raise b => err_beq a b
      | _, _ => false
      end
  | CUnpack d out =>
      match unpack d, out with
      | Ok (v, r), Ok (v', r') => value_beq v v' && bytes_beq r r'
      | Raise a, Raise b => err_beq a b
      | _, _ => false
      end
  end.
