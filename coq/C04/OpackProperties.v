(* C04 (OPACK part) and the decoder-termination half of C05 for OPACK - property theorems only.
   Model: OpackModel.v (pyatv/support/opack.py as fixed by f2b1e52).  Format: OpackSpec.v
   (docs/documentation/protocols.md).  Every theorem is closed by `exact`. *)
From Coq Require Import NArith ZArith List Bool Lia.
From PV Require Import Common.Cases Common.Endian C04.OpackModel C04.OpackSpec C04.OpackProofsA C04.OpackProofsB
  C04.OpackProofsC C04.OpackProofsD C04.OpackProofsE.
Import ListNotations.
Local Open Scope N_scope.

(* decode(encode(x)) == x.  For every value of the domain (arbitrary nesting, every length class,
   any repeated sub-values) with at most 0x10000 non-container objects, pack succeeds and unpack
   returns exactly `norm v` - v with every int carrying the size it was written with - and leaves
   whatever followed the message untouched. *)
Theorem C04_opack_roundtrip : forall v rest,
  wf v -> N.of_nat (leaves v) <= 0x10000 ->
  exists bs, pack v = Ok bs /\ unpack (bs ++ rest) = Ok (norm v, rest).
Proof. exact roundtrip_total. Qed.
Print Assumptions C04_opack_roundtrip.

(* ... the same with the side condition on the table the encoder actually built (both object
   lists threaded through; invariant: same encodings in the same order, every entry's value is
   what its encoding denotes) *)
Theorem C04_opack_roundtrip_table : forall v bs pt rest,
  wf v -> pack_v v [] = Ok (bs, pt) -> lenN pt <= 0x10000 -> unpack (bs ++ rest) = Ok (norm v, rest).
Proof. exact roundtrip. Qed.
Print Assumptions C04_opack_roundtrip_table.

(* `norm v` is v as Python compares it (int_2b(300) == 300), and a fixed point: values that came
   out of unpack go through pack/unpack unchanged, bit for bit *)
Theorem C04_opack_norm_equal : forall v, erase (norm v) = erase v.
Proof. exact erase_norm. Qed.
Print Assumptions C04_opack_norm_equal.

Theorem C04_opack_norm_fixed : forall v, norm (norm v) = norm v.
Proof. exact norm_idem. Qed.
Print Assumptions C04_opack_norm_fixed.

(* encode(x) is a documented encoding of x: what pack writes is in the format of the protocol
   documentation (even in its core, without the three forms the decoder does not read), for
   values whose data objects are shorter than 0x10000 bytes *)
Theorem C04_opack_pack_sound : forall v,
  wf v -> doc_dom v -> N.of_nat (leaves v) <= 0x10000 ->
  exists bs, pack v = Ok bs /\ enc_rel_core (erase v) bs /\ enc_rel (erase v) bs.
Proof. exact pack_sound_total. Qed.
Print Assumptions C04_opack_pack_sound.

(* what pack writes are bytes *)
Theorem C04_opack_pack_bytes : forall v bs, wf v -> pack v = Ok bs -> wf_bytes bs.
Proof. exact pack_wf_bytes. Qed.
Print Assumptions C04_opack_pack_bytes.

(* decode(reference variants) == x: every documented encoding of a value - non-minimal length
   classes, 16-byte ints, float32, counted or endless collections of any size, back-references
   used or not, 1..4 byte pointers - is read back to that value, whatever follows *)
Theorem C04_opack_unpack_complete : forall a bs rest,
  enc_rel_core a bs -> exists v, unpack (bs ++ rest) = Ok (v, rest) /\ erase v = a.
Proof. exact unpack_complete. Qed.
Print Assumptions C04_opack_unpack_complete.

(* where the faithful model does NOT satisfy the full statement: the documented table has forms the
   decoder rejects or reads differently (reported by the check as known findings) *)
Theorem C04_opack_unpack_complete_refuted_0x6F :
  enc_rel (VStr [0x66; 0x6F; 0x6F]) [0x6F; 0x66; 0x6F; 0x6F; 0x00] /\
  unpack [0x6F; 0x66; 0x6F; 0x6F; 0x00] = Raise TypeError.
Proof. exact complete_refuted_0x6F. Qed.
Print Assumptions C04_opack_unpack_complete_refuted_0x6F.

Theorem C04_opack_unpack_complete_refuted_0x93 :
  enc_rel (VBytes [0xAA; 0xBB]) [0x93; 0x02; 0x00; 0x00; 0xAA; 0xBB] /\
  unpack [0x93; 0x02; 0x00; 0x00; 0xAA; 0xBB] = Ok (VBytes [0xBB], []).
Proof. exact complete_refuted_0x93. Qed.
Print Assumptions C04_opack_unpack_complete_refuted_0x93.

Theorem C04_opack_pack_sound_refuted_big_data : forall s e full,
  0xFFFF < lenN s -> lenN s < 2 ^ 32 -> pack_bytes s = Ok e -> ~ leaf_enc full (VBytes s) e.
Proof. exact sound_refuted_big_data. Qed.
Print Assumptions C04_opack_pack_sound_refuted_big_data.

(* why the round trip carries the bound 0x10000: beyond it pack writes a pointer the decoder (and
   the documentation) read one byte short - the value is found but the stream is out of step *)
Theorem C04_opack_ptr_index_mismatch : forall f ut e x rest i,
  0xFFFF < i -> i < 2 ^ 24 -> nthN ut i = Some (e, x) ->
  exists stray, unpack_f (S f) (pack_ptr i e ++ rest) ut = Ok (x, stray :: rest, ut).
Proof. exact ptr_index_mismatch. Qed.
Print Assumptions C04_opack_ptr_index_mismatch.

(* C05, decoder termination: for EVERY byte string (and every object list) the decoder finishes -
   fuel length+1 is never exhausted; it returns a value or raises one of the six ordinary
   exceptions of `err` *)
Theorem C05_opack_fuel_enough : forall data, unpack data <> OutOfFuel.
Proof. exact opack_fuel_enough. Qed.
Print Assumptions C05_opack_fuel_enough.

Theorem C05_opack_fuel_enough_gen : forall data t, unpack_f (S (length data)) data t <> OutOfFuel.
Proof. exact opack_fuel_enough_gen. Qed.
Print Assumptions C05_opack_fuel_enough_gen.

(* ... because every successful (recursive) call consumes at least one byte: the number of calls
   is at most length data + 1 *)
Theorem C05_opack_progress : forall f d t v r t',
  unpack_f f d t = Ok (v, r, t') -> (length r < length d)%nat.
Proof. exact unpack_f_progress. Qed.
Print Assumptions C05_opack_progress.

(* fuel only bounds: any larger fuel gives the same answer *)
Theorem C05_opack_fuel_irrelevant : forall f f' d t r,
  (f <= f')%nat -> unpack_f f d t = r -> r <> OutOfFuel -> unpack_f f' d t = r.
Proof. intros f f' d t r H. exact (unpack_f_mono f f' H d t r). Qed.
Print Assumptions C05_opack_fuel_irrelevant.

(* ------------------------------------------------------------------ non-vacuity *)

Definition ex_msg : value :=
  VDict [(VStr [95; 99], VDict [(VStr [97], VInt 1 0)]);
         (VStr [120], VStr [97; 98; 99]);
         (VStr [121], VStr [97; 98; 99]);
         (VInt 300 0, VList [VFloat [0; 0; 0; 0; 0; 0; 0; 128]; VBytes []; VBool true; VNone; VInt 300 2; VInt (-1) 0])].

Ltac wf_tac :=
  lazymatch goal with
  | |- wf VNone => apply wf_none
  | |- wf (VBool _) => apply wf_bool
  | |- wf (VInt _ _) => apply wf_vint; unfold wf_int; lia
  | |- wf (VFloat _) => apply wf_float; [reflexivity | repeat constructor]
  | |- wf (VStr _) => apply wf_str; [repeat constructor | reflexivity | vm_compute; reflexivity]
  | |- wf (VBytes _) => apply wf_vbytes; [repeat constructor | vm_compute; reflexivity]
  | |- wf (VList _) => apply wf_list; repeat (apply Forall_cons; [wf_tac|]); apply Forall_nil
  | |- wf (VDict _) =>
      apply wf_dict;
      [ repeat (apply Forall_cons; [split; cbn [fst snd]; wf_tac|]); apply Forall_nil
      | split; cbn [map fst];
        [ repeat (apply Forall_cons; [split; reflexivity|]); apply Forall_nil
        | repeat (apply FOP_cons; [repeat (apply Forall_cons; [vm_compute; reflexivity|]); apply Forall_nil|]);
          apply FOP_nil ] ]
  end.

Example ex_msg_wf : wf ex_msg.
Proof. unfold ex_msg. wf_tac. Qed.

(* the second "abc" and the second 300 are back-references (0xA3, 0xA5) *)
Example ex_msg_packs :
  pack ex_msg = Ok [228; 66; 95; 99; 225; 65; 97; 9; 65; 120; 67; 97; 98; 99; 65; 121; 163; 49; 44; 1;
                    214; 54; 0; 0; 0; 0; 0; 0; 0; 128; 112; 1; 4; 165; 7].
Proof. vm_compute. reflexivity. Qed.

Example ex_msg_roundtrip : exists bs, pack ex_msg = Ok bs /\ unpack (bs ++ [1; 2]) = Ok (norm ex_msg, [1; 2]).
Proof. apply C04_opack_roundtrip; [exact ex_msg_wf | vm_compute; discriminate]. Qed.

(* the witnesses of the repaired defects (corpus/C04/opack_*.json) in the model *)
Example ex_container_not_in_table :
  unpack [0xD3; 0xD1; 0x09; 0x42; 97; 98; 0xA0] = Ok (VList [VList [VInt 1 0]; VStr [97; 98]; VStr [97; 98]], []).
Proof. vm_compute. reflexivity. Qed.
Example ex_minus_one : pack (VInt (-1) 0) = Ok [7] /\ unpack [7] = Ok (VInt (-1) 0, []).
Proof. split; vm_compute; reflexivity. Qed.

(* a documented variant: endless dictionary, 2-byte string length, float32, 3-byte pointer *)
Example ex_variant :
  enc_rel_core (VDict [(VStr [97], VFloat [0; 0; 0; 0; 0; 0; 248; 63]); (VStr [98], VStr [97])])
               [0xEF; 0x62; 1; 0; 97; 0x35; 0; 0; 0xC0; 0x3F; 0x41; 98; 0xC3; 0; 0; 0; 0x03].
Proof.
  eexists.
  change [0xEF; 0x62; 1; 0; 97; 0x35; 0; 0; 0xC0; 0x3F; 0x41; 98; 0xC3; 0; 0; 0; 0x03]
    with (0xEF :: ([0x62; 1; 0; 97] ++ [0x35; 0; 0; 0xC0; 0x3F] ++ [0x41; 98] ++ [0xC3; 0; 0; 0] ++ []) ++ [0x03]).
  apply E_dict_endless.
  - split; [repeat constructor|]. repeat constructor.
  - eapply EK_cons.
    + apply E_leaf; [exact (LE_str_len false 2 [97] ltac:(lia) ltac:(vm_compute; reflexivity) eq_refl)|].
      apply SN_new; [simpl; lia|intros []].
    + apply E_leaf; [exact (LE_f32 false 0x3FC00000 ltac:(vm_compute; reflexivity))|].
      apply SN_new; [simpl; lia|]. simpl. intros [H|[]]; discriminate.
    + eapply EK_cons.
      * apply E_leaf; [exact (LE_str_short false [98] ltac:(vm_compute; discriminate) eq_refl)|].
        apply SN_new; [simpl; lia|]. simpl. intros [H|[H|[]]]; discriminate.
      * eapply (E_ptr false _ 0%nat); [reflexivity|]. exact (PE_len 3 0 ltac:(lia) ltac:(vm_compute; reflexivity)).
      * apply EK_nil.
Qed.

Example ex_variant_decodes :
  unpack [0xEF; 0x62; 1; 0; 97; 0x35; 0; 0; 0xC0; 0x3F; 0x41; 98; 0xC3; 0; 0; 0; 0x03] =
  Ok (VDict [(VStr [97], VFloat [0; 0; 0; 0; 0; 0; 248; 63]); (VStr [98], VStr [97])], []).
Proof. vm_compute. reflexivity. Qed.
