(* C04 OPACK - the round trip unpack (pack v ++ rest) = (norm v, rest), with both object lists
   threaded through and the invariant
       map fst utable = ptable   /\   every entry's value is the one its encoding denotes. *)
From Coq Require Import NArith ZArith List Bool Lia ZifyBool.
From PV Require Import Common.Cases Common.Endian C04.OpackModel C04.OpackProofsA.
Import ListNotations.
Local Open Scope N_scope.
Ltac Zify.zify_post_hook ::= Z.to_euclidean_division_equations.

(* ------------------------------------------------------------------ one step of unpack_f *)

Lemma unpack_f_leaf f b rest0 t x rem add :
  unpack_leaf b rest0 = Some (Ok (x, rem, add)) ->
  unpack_f (S f) (b :: rest0) t = Ok (x, rem, if add then table_add (consumed (b :: rest0) rem) x t else t).
Proof. intro H. cbn [unpack_f]. rewrite H. reflexivity. Qed.

Lemma unpack_f_ptr_short f b rest t : 0xA0 <= b <= 0xC0 ->
  unpack_f (S f) (b :: rest) t =
  match nthN t (b - 0xA0) with Some (_, v) => Ok (v, rest, t) | None => Raise IndexError end.
Proof.
  intro H. cbn [unpack_f]. rewrite ul_none by lia.
  destruct (b / 16 =? 13) eqn:E1; [exfalso; lia|].
  destruct (224 <=? b) eqn:E2; [exfalso; lia|].
  destruct ((160 <=? b) && (b <=? 192)) eqn:E3; [reflexivity|exfalso; lia].
Qed.

Lemma unpack_f_ptr_len f b rest t : 0xC1 <= b <= 0xC4 ->
  unpack_f (S f) (b :: rest) t =
  match nthN t (le_dec (takeN (b - 0xC0) rest)) with
  | Some (_, v) => Ok (v, dropN (b - 0xC0) rest, t) | None => Raise IndexError end.
Proof.
  intro H. cbn [unpack_f]. rewrite ul_none by lia.
  destruct (b / 16 =? 13) eqn:E1; [exfalso; lia|].
  destruct (224 <=? b) eqn:E2; [exfalso; lia|].
  destruct ((160 <=? b) && (b <=? 192)) eqn:E3; [exfalso; lia|].
  destruct ((193 <=? b) && (b <=? 196)) eqn:E4; [reflexivity|exfalso; lia].
Qed.

Lemma unpack_f_list f b rest t : 0xD0 <= b <= 0xDF ->
  unpack_f (S f) (b :: rest) t =
  match (if b mod 16 =? 0xF then unpack_endless (unpack_f f) f rest t
         else unpack_n (unpack_f f) (N.to_nat (b mod 16)) rest t) with
  | Ok (vs, p, t') => Ok (VList vs, p, t') | Raise e => Raise e | OutOfFuel => OutOfFuel end.
Proof.
  intro H. cbn [unpack_f]. rewrite ul_none by lia.
  destruct (b / 16 =? 13) eqn:E1; [reflexivity|exfalso; lia].
Qed.

Lemma unpack_f_dict f b rest t : 0xE0 <= b ->
  unpack_f (S f) (b :: rest) t =
  match (if b mod 16 =? 0xF then unpack_endless_kv (unpack_f f) f rest t
         else unpack_n_kv (unpack_f f) (N.to_nat (b mod 16)) rest t) with
  | Ok (kvs, p, t') => Ok (VDict (mk_dict kvs), p, t') | Raise e => Raise e | OutOfFuel => OutOfFuel end.
Proof.
  intro H. cbn [unpack_f]. rewrite ul_none by lia.
  destruct (b / 16 =? 13) eqn:E1; [exfalso; lia|].
  destruct (224 <=? b) eqn:E2; [reflexivity|exfalso; lia].
Qed.

Lemma consumed_app (e rest : bytes) : consumed (e ++ rest) rest = e.
Proof.
  unfold consumed. rewrite app_length, Nat.add_sub.
  rewrite firstn_app, Nat.sub_diag, firstn_all. simpl. apply app_nil_r.
Qed.

(* ------------------------------------------------------------------ the two object lists *)

Lemma index_of_some e pt : forall i, index_of e pt = Some i ->
  nth_error pt (N.to_nat i) = Some e /\ i < lenN pt.
Proof.
  induction pt as [|x t IH]; intros i H; simpl in H; [discriminate|].
  destruct (bytes_beq x e) eqn:E.
  - inversion H; subst. apply bytes_beq_eq in E. subst. split; [reflexivity|]. rewrite lenN_cons. lia.
  - destruct (index_of e t) as [j|] eqn:Ej; [|discriminate]. inversion H; subst.
    destruct (IH j eq_refl) as (A & B). rewrite lenN_cons. split; [|lia].
    replace (N.to_nat (N.succ j)) with (S (N.to_nat j)) by lia. exact A.
Qed.

Lemma index_of_none e (ut : utable) :
  index_of e (map fst ut) = None -> existsb (fun o => bytes_beq e (fst o)) ut = false.
Proof.
  induction ut as [|[x v] t IH]; intro H; simpl in *; [reflexivity|].
  destruct (bytes_beq x e) eqn:E; [discriminate|].
  destruct (index_of e (map fst t)); [discriminate|].
  rewrite IH by reflexivity. rewrite orb_false_r.
  destruct (bytes_beq e x) eqn:E'; [|reflexivity].
  apply bytes_beq_eq in E'. subst. now rewrite bytes_beq_refl in E.
Qed.

(* "the value its encoding denotes": decoding e in isolation yields x *)
Definition denotes (e : bytes) (x : value) : Prop :=
  forall rest, exists b body add, e = b :: body /\ unpack_leaf b (body ++ rest) = Some (Ok (x, rest, add)).

Definition tbl_ok (ut : utable) : Prop := Forall (fun p => denotes (fst p) (snd p)) ut.

Lemma leaf_denotes v e : wf v -> leaf_bytes v = Some (Ok e) -> denotes e (norm v).
Proof.
  intros W L rest. destruct (leaf_rt v e rest W L) as (b & body & add & E & U & _).
  exists b, body, add. auto.
Qed.

(* leaf encoding is injective up to norm *)
Lemma denotes_fun e x y : denotes e x -> denotes e y -> x = y.
Proof.
  intros Hx Hy. destruct (Hx []) as (b & body & a & E & U). destruct (Hy []) as (b' & body' & a' & E' & U').
  rewrite E in E'. inversion E'; subst. rewrite U in U'. now inversion U'.
Qed.

Lemma leaf_head_not3 v e : wf v -> leaf_bytes v = Some (Ok e) -> exists b body, e = b :: body /\ b <> 3 /\ b <> 0.
Proof.
  intros W L. destruct (leaf_rt v e [] W L) as (b & body & add & E & U & _).
  exists b, body. split; [assumption|]. split; intro; subst b.
  - now rewrite ul_three in U.
  - now rewrite ul_zero in U.
Qed.

(* ------------------------------------------------------------------ sizes *)

Fixpoint vsize (v : value) : nat :=
  match v with
  | VList l => S ((fix go (l : list value) : nat := match l with [] => O | x :: t => (vsize x + go t)%nat end) l)
  | VDict kv => S ((fix go (l : list (value * value)) : nat :=
                      match l with [] => O | (k, x) :: t => (vsize k + vsize x + go t)%nat end) kv)
  | _ => 1
  end.

Fixpoint lsize (l : list value) : nat := match l with [] => O | x :: t => (vsize x + lsize t)%nat end.
Fixpoint kvsize (l : list (value * value)) : nat :=
  match l with [] => O | (k, x) :: t => (vsize k + vsize x + kvsize t)%nat end.

Lemma vsize_list l : vsize (VList l) = S (lsize l).
Proof. reflexivity. Qed.
Lemma vsize_dict kv : vsize (VDict kv) = S (kvsize kv).
Proof. reflexivity. Qed.
Lemma vsize_pos v : (1 <= vsize v)%nat.
Proof. destruct v; simpl; lia. Qed.
Lemma lsize_len l : (length l <= lsize l)%nat.
Proof. induction l; simpl; [lia|]. pose proof (vsize_pos a). lia. Qed.
Lemma kvsize_len l : (length l <= kvsize l)%nat.
Proof. induction l as [|[k x] t IH]; simpl; [lia|]. pose proof (vsize_pos k). lia. Qed.

(* ------------------------------------------------------------------ the leaf case *)

Definition is_leaf (v : value) : bool := match v with VList _ | VDict _ => false | _ => true end.

Lemma pack_v_leaf v pt : is_leaf v = true ->
  pack_v v pt = match leaf_bytes v with
                | Some (Ok e) => Ok (finish_leaf e pt)
                | Some (Raise e) => Raise e
                | _ => Raise TypeError
                end.
Proof. destruct v; simpl; intro H; try reflexivity; discriminate. Qed.

Lemma leaf_bytes_wf v : wf v -> is_leaf v = true -> exists e, leaf_bytes v = Some (Ok e).
Proof.
  intros W L. destruct v; simpl in *; try discriminate; try (eexists; reflexivity).
  - destruct (pack_int_spec z hint (wf_int_inv _ _ W)) as [(_ & _ & Hp)|(k & _ & _ & _ & Hp)]; rewrite Hp; eauto.
  - destruct (wf_str_inv _ W) as (_ & _ & H). destruct (pack_str_spec s H) as [(_ & Hp)|(k & _ & _ & _ & Hp)]; rewrite Hp; eauto.
  - destruct (wf_bytes_inv _ W) as (_ & H). destruct (pack_bytes_spec s H) as [(_ & Hp)|(k & _ & _ & _ & Hp)]; rewrite Hp; eauto.
Qed.

Lemma nth_error_map_fst (ut : utable) n e :
  nth_error (map fst ut) n = Some e -> exists x, nth_error ut n = Some (e, x).
Proof.
  intro H. rewrite nth_error_map in H. destruct (nth_error ut n) as [[e' x]|]; simpl in H; [|discriminate].
  inversion H; subst. eauto.
Qed.

(* the leaf step of the decoder, for the three ways a leaf is written *)
Lemma rt_leaf v pt bs pt' ut :
  is_leaf v = true -> wf v -> pack_v v pt = Ok (bs, pt') -> map fst ut = pt -> tbl_ok ut -> lenN pt' <= 0x10000 ->
  exists ut', map fst ut' = pt' /\ tbl_ok ut' /\
    forall rest f, unpack_f (S f) (bs ++ rest) ut = Ok (norm v, rest, ut').
Proof.
  intros L W P M T B. rewrite pack_v_leaf in P by assumption.
  destruct (leaf_bytes_wf v W L) as (e & He). rewrite He in P. inversion P as [P']; clear P.
  destruct (leaf_rt v e [] W He) as (b & body & add0 & Ee & _ & _).
  assert (RTe : forall rest, exists add, unpack_leaf b (body ++ rest) = Some (Ok (norm v, rest, add)) /\
                                         (add = false -> length e = 1%nat)).
  { intro rest. destruct (leaf_rt v e rest W He) as (b' & body' & add & Ee' & U & Hadd).
    rewrite Ee in Ee'. inversion Ee'; subst b' body'. eauto. }
  unfold finish_leaf in P'.
  destruct (length e =? 1)%nat eqn:E1.
  - (* single byte: never in the list *)
    inversion P'; subst bs pt'; clear P'. exists ut. split; [exact M|]. split; [assumption|].
    intros rest f. destruct (RTe rest) as (add & U & Hadd).
    rewrite Ee. cbn [app]. rewrite (unpack_f_leaf f b (body ++ rest) ut _ _ _ U).
    change (b :: body ++ rest) with ((b :: body) ++ rest). rewrite consumed_app, <- Ee.
    rewrite table_flag by assumption. unfold table_add.
    apply Nat.eqb_eq in E1. rewrite E1. reflexivity.
  - apply Nat.eqb_neq in E1.
    destruct (index_of e pt) as [i|] eqn:Ei.
    + (* back-reference *)
      inversion P'; subst bs pt'; clear P'. exists ut. split; [exact M|]. split; [assumption|].
      intros rest f.
      destruct (index_of_some e pt i Ei) as (Hn & Hi).
      rewrite <- M in Hn. destruct (nth_error_map_fst ut _ _ Hn) as (x & Hx).
      assert (x = norm v).
      { unfold tbl_ok in T. rewrite Forall_forall in T. apply nth_error_In in Hx. apply T in Hx. simpl in Hx.
        eapply denotes_fun; [exact Hx|]. now apply leaf_denotes. }
      subst x. unfold pack_ptr.
      destruct (i <? 33) eqn:C0.
      * cbn [app]. rewrite unpack_f_ptr_short by lia. replace (160 + i - 160) with i by lia.
        rewrite nthN_nth_error, Hx. reflexivity.
      * destruct (i <=? 255) eqn:C1.
        { cbn [app]. rewrite unpack_f_ptr_len by lia. change (193 - 192) with 1.
          rewrite (takeN_app_len (le_enc 1 i) rest 1) by reflexivity.
          rewrite (dropN_app_len (le_enc 1 i) rest 1) by reflexivity.
          rewrite le_dec_enc by (simpl; lia). rewrite nthN_nth_error, Hx. reflexivity. }
        destruct (i <=? 65535) eqn:C2.
        { cbn [app]. rewrite unpack_f_ptr_len by lia. change (194 - 192) with 2.
          rewrite (takeN_app_len (le_enc 2 i) rest 2) by reflexivity.
          rewrite (dropN_app_len (le_enc 2 i) rest 2) by reflexivity.
          rewrite le_dec_enc by (simpl; lia). rewrite nthN_nth_error, Hx. reflexivity. }
        exfalso. lia.
    + (* new object: appended on both sides *)
      inversion P'; subst bs pt'; clear P'. exists (ut ++ [(e, norm v)]). split; [|split].
      * rewrite map_app, M. reflexivity.
      * apply Forall_app. split; [assumption|]. constructor; [|constructor]. simpl. now apply leaf_denotes.
      * intros rest f. destruct (RTe rest) as (add & U & Hadd).
        rewrite Ee. cbn [app]. rewrite (unpack_f_leaf f b (body ++ rest) ut _ _ _ U).
        change (b :: body ++ rest) with ((b :: body) ++ rest). rewrite consumed_app, <- Ee.
        rewrite table_flag by assumption. unfold table_add.
        rewrite <- M in Ei. rewrite (index_of_none _ _ Ei).
        assert (1 <? length e = true)%nat. { rewrite Ee in *. simpl in *. apply Nat.ltb_lt. lia. }
        rewrite H. reflexivity.
Qed.

(* ------------------------------------------------------------------ facts about pack *)

Definition PF (v : value) : Prop :=
  forall pt bs pt', wf v -> pack_v v pt = Ok (bs, pt') ->
    (exists ext, pt' = pt ++ ext) /\ (exists b bs', bs = b :: bs' /\ b <> 3) /\ (vsize v <= length bs)%nat.

Lemma pf_leaf v : is_leaf v = true -> PF v.
Proof.
  intros L pt bs pt' W P. rewrite pack_v_leaf in P by assumption.
  destruct (leaf_bytes_wf v W L) as (e & He). rewrite He in P. inversion P as [P']; clear P.
  destruct (leaf_head_not3 v e W He) as (b & body & Ee & Hb & _).
  assert (vsize v = 1%nat) by (destruct v; simpl in *; try reflexivity; discriminate).
  unfold finish_leaf in P'. destruct (length e =? 1)%nat.
  - inversion P'; subst. split; [exists []; now rewrite app_nil_r|]. split; [eauto|]. simpl. lia.
  - destruct (index_of e pt) as [i|].
    + inversion P'; subst pt' bs. split; [exists []; now rewrite app_nil_r|]. rewrite H.
      unfold pack_ptr.
      destruct (i <? 33) eqn:C0; [split; [exists (160 + i), []; split; [reflexivity|lia]|simpl; lia]|].
      destruct (i <=? 255); [split; [exists 193, (le_enc 1 i); split; [reflexivity|lia]|simpl; lia]|].
      destruct (i <=? 65535); [split; [exists 194, (le_enc 2 i); split; [reflexivity|lia]|simpl; lia]|].
      destruct (i <=? 4294967295); [split; [exists 195, (le_enc 4 i); split; [reflexivity|lia]|simpl; lia]|].
      destruct (i <=? 18446744073709551615); [split; [exists 196, (le_enc 8 i); split; [reflexivity|lia]|simpl; lia]|].
      subst e. split; [eauto|simpl; lia].
    + inversion P'; subst. split; [eauto|]. split; [eauto|]. simpl. lia.
Qed.

Lemma pack_seq_cons f x t pt :
  pack_seq f (x :: t) pt =
  match f x pt with
  | Ok (b1, pt1) => match pack_seq f t pt1 with Ok (b2, pt2) => Ok (b1 ++ b2, pt2) | Raise e => Raise e | OutOfFuel => OutOfFuel end
  | Raise e => Raise e | OutOfFuel => OutOfFuel end.
Proof. reflexivity. Qed.

Lemma pack_seq_kv_cons f k x t pt :
  pack_seq_kv f ((k, x) :: t) pt =
  match f k pt with
  | Ok (b1, pt1) =>
      match f x pt1 with
      | Ok (b2, pt2) => match pack_seq_kv f t pt2 with Ok (b3, pt3) => Ok (b1 ++ b2 ++ b3, pt3) | Raise e => Raise e | OutOfFuel => OutOfFuel end
      | Raise e => Raise e | OutOfFuel => OutOfFuel end
  | Raise e => Raise e | OutOfFuel => OutOfFuel end.
Proof. reflexivity. Qed.

Lemma pf_seq l : Forall PF l -> Forall wf l -> forall pt body pt',
  pack_seq pack_v l pt = Ok (body, pt') -> (exists ext, pt' = pt ++ ext) /\ (lsize l <= length body)%nat.
Proof.
  induction l as [|x t IH]; intros HP HW pt body pt' P.
  - inversion P; subst. split; [exists []; now rewrite app_nil_r|simpl; lia].
  - inversion HP as [|? ? Px Pt]; inversion HW as [|? ? Wx Wt]; subst.
    rewrite pack_seq_cons in P.
    destruct (pack_v x pt) as [[b1 pt1]| |] eqn:E1; try discriminate.
    destruct (pack_seq pack_v t pt1) as [[b2 pt2]| |] eqn:E2; try discriminate.
    inversion P; subst.
    destruct (Px _ _ _ Wx E1) as ((e1 & ->) & _ & L1).
    destruct (IH Pt Wt _ _ _ E2) as ((e2 & ->) & L2).
    split; [exists (e1 ++ e2); now rewrite app_assoc|]. simpl. rewrite app_length. lia.
Qed.

Lemma pf_seq_kv l : Forall (fun p => PF (fst p) /\ PF (snd p)) l -> Forall (fun p => wf (fst p) /\ wf (snd p)) l ->
  forall pt body pt', pack_seq_kv pack_v l pt = Ok (body, pt') ->
  (exists ext, pt' = pt ++ ext) /\ (kvsize l <= length body)%nat.
Proof.
  induction l as [|[k x] t IH]; intros HP HW pt body pt' P.
  - inversion P; subst. split; [exists []; now rewrite app_nil_r|simpl; lia].
  - inversion HP as [|? ? [Pk Px] Pt]; inversion HW as [|? ? [Wk Wx] Wt]; subst. cbn [fst snd] in *.
    rewrite pack_seq_kv_cons in P.
    destruct (pack_v k pt) as [[b1 pt1]| |] eqn:E1; try discriminate.
    destruct (pack_v x pt1) as [[b2 pt2]| |] eqn:E2; try discriminate.
    destruct (pack_seq_kv pack_v t pt2) as [[b3 pt3]| |] eqn:E3; try discriminate.
    inversion P; subst.
    destruct (Pk _ _ _ Wk E1) as ((e1 & ->) & _ & L1).
    destruct (Px _ _ _ Wx E2) as ((e2 & ->) & _ & L2).
    destruct (IH Pt Wt _ _ _ E3) as ((e3 & ->) & L3).
    split; [exists (e1 ++ e2 ++ e3); now rewrite !app_assoc|]. cbn [kvsize]. rewrite !app_length. lia.
Qed.

Lemma wrap_head base n body : exists tl, wrap base n body = (base + N.min n 15) :: tl /\ (length body <= length tl)%nat.
Proof. unfold wrap. eexists. split; [reflexivity|]. rewrite app_length. lia. Qed.

Lemma pack_v_list l pt :
  pack_v (VList l) pt = match pack_seq pack_v l pt with
                        | Ok (body, pt') => Ok (wrap 0xD0 (lenN l) body, pt') | Raise e => Raise e | OutOfFuel => OutOfFuel end.
Proof. reflexivity. Qed.

Lemma pack_v_dict kv pt :
  pack_v (VDict kv) pt = match pack_seq_kv pack_v kv pt with
                         | Ok (body, pt') => Ok (wrap 0xE0 (lenN kv) body, pt') | Raise e => Raise e | OutOfFuel => OutOfFuel end.
Proof. reflexivity. Qed.

Theorem pack_facts : forall v, PF v.
Proof.
  induction v using value_ind'; try (apply pf_leaf; reflexivity).
  - intros pt bs pt' W P. rewrite pack_v_list in P.
    destruct (pack_seq pack_v l pt) as [[body pt1]| |] eqn:E; try discriminate. inversion P; subst.
    destruct (pf_seq l H (wf_list_inv _ W) _ _ _ E) as (G & S).
    split; [assumption|]. destruct (wrap_head 208 (lenN l) body) as (tl & -> & Hl).
    split; [exists (208 + N.min (lenN l) 15), tl; split; [reflexivity|lia]|].
    rewrite vsize_list. simpl. lia.
  - intros pt bs pt' W P. rewrite pack_v_dict in P.
    destruct (pack_seq_kv pack_v kv pt) as [[body pt1]| |] eqn:E; try discriminate. inversion P; subst.
    destruct (pf_seq_kv kv H (proj1 (wf_dict_inv _ W)) _ _ _ E) as (G & S).
    split; [assumption|]. destruct (wrap_head 224 (lenN kv) body) as (tl & -> & Hl).
    split; [exists (224 + N.min (lenN kv) 15), tl; split; [reflexivity|lia]|].
    rewrite vsize_dict. simpl. lia.
Qed.

(* ------------------------------------------------------------------ containers *)

Definition RT (v : value) : Prop :=
  forall pt bs pt' ut, wf v -> pack_v v pt = Ok (bs, pt') -> map fst ut = pt -> tbl_ok ut -> lenN pt' <= 0x10000 ->
  exists ut', map fst ut' = pt' /\ tbl_ok ut' /\
    forall rest f, (vsize v < f)%nat -> unpack_f f (bs ++ rest) ut = Ok (norm v, rest, ut').

Lemma unpack_endless_step rec n ptr t hb tl : ptr = hb :: tl -> hb <> 3 ->
  unpack_endless rec (S n) ptr t =
  match rec ptr t with
  | Ok (v, ptr', t') =>
      match unpack_endless rec n ptr' t' with
      | Ok (vs, p, t'') => Ok (v :: vs, p, t'') | Raise e => Raise e | OutOfFuel => OutOfFuel end
  | Raise e => Raise e | OutOfFuel => OutOfFuel end.
Proof. intros -> H. cbn [unpack_endless]. destruct (N.eqb_spec hb 3); [contradiction|reflexivity]. Qed.

Lemma unpack_endless_kv_step rec n ptr t hb tl : ptr = hb :: tl -> hb <> 3 ->
  unpack_endless_kv rec (S n) ptr t =
  match unpack_pair rec ptr t with
  | Ok (k, v, ptr', t') =>
      match unpack_endless_kv rec n ptr' t' with
      | Ok (kvs, p, t'') => Ok ((k, v) :: kvs, p, t'') | Raise e => Raise e | OutOfFuel => OutOfFuel end
  | Raise e => Raise e | OutOfFuel => OutOfFuel end.
Proof. intros -> H. cbn [unpack_endless_kv]. destruct (N.eqb_spec hb 3); [contradiction|reflexivity]. Qed.

Lemma lenN_grow {A} (a ext : list A) : lenN a <= lenN (a ++ ext).
Proof. rewrite lenN_app. lia. Qed.

Lemma all_pf l : Forall PF l.
Proof. apply Forall_forall. intros x _. apply pack_facts. Qed.
Lemma all_pf_kv (l : list (value * value)) : Forall (fun p => PF (fst p) /\ PF (snd p)) l.
Proof. apply Forall_forall. intros x _. split; apply pack_facts. Qed.

Lemma rt_seq l : Forall RT l -> Forall wf l -> forall pt body pt' ut,
  pack_seq pack_v l pt = Ok (body, pt') -> map fst ut = pt -> tbl_ok ut -> lenN pt' <= 0x10000 ->
  exists ut', map fst ut' = pt' /\ tbl_ok ut' /\
    forall rest f, (lsize l < f)%nat ->
      unpack_n (unpack_f f) (length l) (body ++ rest) ut = Ok (map norm l, rest, ut') /\
      (forall n, (length l < n)%nat ->
         unpack_endless (unpack_f f) n (body ++ 3 :: rest) ut = Ok (map norm l, rest, ut')).
Proof.
  induction l as [|x t IH]; intros HR HW pt body pt' ut P M T B.
  - inversion P; subst. exists ut. split; [reflexivity|]. split; [assumption|].
    intros rest f Hf. split; [reflexivity|]. intros n Hn. destruct n; [simpl in Hn; lia|]. reflexivity.
  - apply Forall_cons_iff in HR. destruct HR as [Rx Rt]. apply Forall_cons_iff in HW. destruct HW as [Wx Wt].
    rewrite pack_seq_cons in P.
    destruct (pack_v x pt) as [[b1 pt1]| |] eqn:E1; try discriminate.
    destruct (pack_seq pack_v t pt1) as [[b2 pt2]| |] eqn:E2; try discriminate.
    inversion P; subst body pt'; clear P.
    destruct (pack_facts x _ _ _ Wx E1) as (_ & (hb & tl & Hb1 & Hhb) & _).
    destruct (pf_seq t (all_pf t) Wt _ _ _ E2) as ((ext & Hext) & _).
    assert (B1 : lenN pt1 <= 65536). { pose proof (lenN_grow pt1 ext). rewrite <- Hext in H. lia. }
    destruct (Rx _ _ _ ut Wx E1 M T B1) as (ut1 & M1 & T1 & U1).
    destruct (IH Rt Wt _ _ _ ut1 E2 M1 T1 B) as (ut2 & M2 & T2 & U2).
    exists ut2. split; [assumption|]. split; [assumption|].
    intros rest f Hf. cbn [lsize] in Hf. split.
    + cbn [length unpack_n]. rewrite <- app_assoc. rewrite U1 by lia.
      destruct (U2 rest f ltac:(lia)) as (A & _). rewrite A. reflexivity.
    + intros n Hn. destruct n; [lia|]. cbn [length] in Hn. rewrite <- app_assoc.
      rewrite (unpack_endless_step _ _ _ _ hb (tl ++ b2 ++ 3 :: rest)) by (subst b1; auto).
      rewrite U1 by lia.
      destruct (U2 rest f ltac:(lia)) as (_ & A). rewrite A by lia. reflexivity.
Qed.

Definition normp (p : value * value) : value * value := (norm (fst p), norm (snd p)).

Lemma hashable_norm k : hashable (norm k) = hashable k.
Proof. destruct k; reflexivity. Qed.

Lemma rt_seq_kv l : Forall (fun p => RT (fst p) /\ RT (snd p)) l -> Forall (fun p => wf (fst p) /\ wf (snd p)) l ->
  Forall (fun k => hashable k = true) (map fst l) ->
  forall pt body pt' ut,
  pack_seq_kv pack_v l pt = Ok (body, pt') -> map fst ut = pt -> tbl_ok ut -> lenN pt' <= 0x10000 ->
  exists ut', map fst ut' = pt' /\ tbl_ok ut' /\
    forall rest f, (kvsize l < f)%nat ->
      unpack_n_kv (unpack_f f) (length l) (body ++ rest) ut = Ok (map normp l, rest, ut') /\
      (forall n, (length l < n)%nat ->
         unpack_endless_kv (unpack_f f) n (body ++ 3 :: rest) ut = Ok (map normp l, rest, ut')).
Proof.
  induction l as [|[k x] t IH]; intros HR HW HH pt body pt' ut P M T B.
  - inversion P; subst. exists ut. split; [reflexivity|]. split; [assumption|].
    intros rest f Hf. split; [reflexivity|]. intros n Hn. destruct n; [simpl in Hn; lia|]. reflexivity.
  - apply Forall_cons_iff in HR. destruct HR as [[Rk Rx] Rt]. apply Forall_cons_iff in HW. destruct HW as [[Wk Wx] Wt].
    cbn [map fst snd] in *. apply Forall_cons_iff in HH. destruct HH as [Hk Ht].
    rewrite pack_seq_kv_cons in P.
    destruct (pack_v k pt) as [[b1 pt1]| |] eqn:E1; try discriminate.
    destruct (pack_v x pt1) as [[b2 pt2]| |] eqn:E2; try discriminate.
    destruct (pack_seq_kv pack_v t pt2) as [[b3 pt3]| |] eqn:E3; try discriminate.
    inversion P; subst body pt'; clear P.
    destruct (pack_facts k _ _ _ Wk E1) as (_ & (hb & tl & Hb1 & Hhb) & _).
    destruct (pack_facts x _ _ _ Wx E2) as ((ext2 & Hext2) & _ & _).
    destruct (pf_seq_kv t (all_pf_kv t) Wt _ _ _ E3) as ((ext3 & Hext3) & _).
    assert (B2 : lenN pt2 <= 65536). { pose proof (lenN_grow pt2 ext3). rewrite <- Hext3 in H. lia. }
    assert (B1 : lenN pt1 <= 65536). { pose proof (lenN_grow pt1 ext2). rewrite <- Hext2 in H. lia. }
    destruct (Rk _ _ _ ut Wk E1 M T B1) as (ut1 & M1 & T1 & U1).
    destruct (Rx _ _ _ ut1 Wx E2 M1 T1 B2) as (ut2 & M2 & T2 & U2).
    destruct (IH Rt Wt Ht _ _ _ ut2 E3 M2 T2 B) as (ut3 & M3 & T3 & U3).
    exists ut3. split; [assumption|]. split; [assumption|].
    intros rest f Hf. cbn [kvsize] in Hf.
    assert (UP : forall tail, unpack_pair (unpack_f f) (b1 ++ b2 ++ tail) ut = Ok (norm k, norm x, tail, ut2)).
    { intro tail. unfold unpack_pair. rewrite U1 by lia. rewrite U2 by lia. rewrite hashable_norm, Hk. reflexivity. }
    split.
    + cbn [length unpack_n_kv]. rewrite <- !app_assoc. rewrite UP.
      destruct (U3 rest f ltac:(lia)) as (A & _). rewrite A. reflexivity.
    + intros n Hn. destruct n; [lia|]. cbn [length] in Hn. rewrite <- !app_assoc.
      rewrite (unpack_endless_kv_step _ _ _ _ hb (tl ++ b2 ++ b3 ++ 3 :: rest)) by (subst b1; auto).
      rewrite UP.
      destruct (U3 rest f ltac:(lia)) as (_ & A). rewrite A by lia. reflexivity.
Qed.

(* ------------------------------------------------------------------ dict keys *)

Lemma num_of_norm a : num_of (norm a) = num_of a.
Proof. destruct a; reflexivity. Qed.

Lemma key_eq_norm a b : key_eq (norm a) (norm b) = key_eq a b.
Proof. unfold key_eq. rewrite !num_of_norm. destruct a, b; reflexivity. Qed.

Lemma dict_set_fresh d k v : Forall (fun p => key_eq (fst p) k = false) d -> dict_set d k v = d ++ [(k, v)].
Proof.
  induction d as [|[k' v'] t IH]; intro H; [reflexivity|].
  apply Forall_cons_iff in H. destruct H as [H1 H2]. simpl in H1. cbn [dict_set]. rewrite H1.
  rewrite IH by assumption. reflexivity.
Qed.

Lemma mk_dict_fresh_gen : forall (l acc : list (value * value)),
  Forall (fun a => Forall (fun b => key_eq (fst a) (fst b) = false) l) acc ->
  ForallOrdPairs (fun a b => key_eq a b = false) (map fst l) ->
  fold_left (fun d kv => dict_set d (fst kv) (snd kv)) l acc = acc ++ l.
Proof.
  induction l as [|[k v] t IH]; intros acc HA HP; cbn [fold_left].
  - now rewrite app_nil_r.
  - cbn [fst snd]. rewrite dict_set_fresh.
    + rewrite IH.
      * rewrite <- app_assoc. reflexivity.
      * apply Forall_app. split.
        { eapply Forall_impl; [|exact HA]. intros a Ha. apply Forall_cons_iff in Ha. tauto. }
        constructor; [|constructor]. cbn [fst].
        inversion HP as [|? ? Hk Ht]; subst. rewrite Forall_map in Hk. exact Hk.
      * inversion HP; assumption.
    + eapply Forall_impl; [|exact HA]. intros a Ha. apply Forall_cons_iff in Ha. tauto.
Qed.

Lemma mk_dict_fresh l : ForallOrdPairs (fun a b => key_eq a b = false) (map fst l) -> mk_dict l = l.
Proof. intro H. unfold mk_dict. rewrite mk_dict_fresh_gen; [reflexivity|constructor|assumption]. Qed.

Lemma keys_norm ks : ForallOrdPairs (fun a b => key_eq a b = false) ks ->
  ForallOrdPairs (fun a b => key_eq a b = false) (map norm ks).
Proof.
  induction 1 as [|a l Ha Hl IH]; cbn [map]; constructor; [|assumption].
  rewrite Forall_map. eapply Forall_impl; [|exact Ha]. intros b Hb. cbn beta. now rewrite key_eq_norm.
Qed.

(* ------------------------------------------------------------------ the theorem *)

Lemma wrap_counted base n body : n <= 14 -> wrap base n body = (base + n) :: body.
Proof.
  intro H. unfold wrap. replace (N.min n 15) with n by lia.
  destruct (15 <=? n) eqn:E; [lia|]. now rewrite app_nil_r.
Qed.

Lemma wrap_endless base n body : 15 <= n -> wrap base n body = (base + 15) :: body ++ [3].
Proof.
  intro H. unfold wrap. replace (N.min n 15) with 15 by lia.
  destruct (15 <=? n) eqn:E; [reflexivity|lia].
Qed.

Lemma rt_of_leaf v : is_leaf v = true -> RT v.
Proof.
  intros L pt bs pt' ut W P M T B.
  destruct (rt_leaf v pt bs pt' ut L W P M T B) as (ut' & M' & T' & U).
  exists ut'. split; [assumption|]. split; [assumption|]. intros rest f Hf.
  destruct f; [lia|]. apply U.
Qed.

Theorem roundtrip_gen : forall v, RT v.
Proof.
  induction v using value_ind'; try (apply rt_of_leaf; reflexivity).
  - (* list *)
    intros pt bs pt' ut W P M T B. rewrite pack_v_list in P.
    destruct (pack_seq pack_v l pt) as [[body pt1]| |] eqn:E; try discriminate. inversion P; subst bs pt'; clear P.
    destruct (rt_seq l H (wf_list_inv _ W) _ _ _ ut E M T B) as (ut' & M' & T' & U).
    exists ut'. split; [assumption|]. split; [assumption|].
    intros rest f Hf. rewrite vsize_list in Hf. destruct f as [|f]; [lia|].
    destruct (U rest f ltac:(lia)) as (Un & Ue). pose proof (lsize_len l) as Hlen.
    destruct (N.leb_spec (lenN l) 14) as [C|C].
    + rewrite wrap_counted by assumption. cbn [app]. rewrite unpack_f_list by lia.
      replace ((208 + lenN l) mod 16) with (lenN l) by lia.
      destruct (lenN l =? 15) eqn:E15; [lia|].
      unfold lenN at 1. rewrite Nat2N.id, Un. reflexivity.
    + rewrite wrap_endless by lia. cbn [app]. rewrite unpack_f_list by lia.
      change ((208 + 15) mod 16 =? 15) with true. cbv iota. rewrite <- app_assoc. cbn [app].
      rewrite Ue by lia. reflexivity.
  - (* dict *)
    intros pt bs pt' ut W P M T B. rewrite pack_v_dict in P.
    destruct (pack_seq_kv pack_v kv pt) as [[body pt1]| |] eqn:E; try discriminate. inversion P; subst bs pt'; clear P.
    destruct (wf_dict_inv _ W) as (Wkv & Hkeys & Hdist).
    assert (HH : Forall (fun k => hashable k = true) (map fst kv)).
    { eapply Forall_impl; [|exact Hkeys]. intros a [Ha _]. exact Ha. }
    destruct (rt_seq_kv kv H Wkv HH _ _ _ ut E M T B) as (ut' & M' & T' & U).
    exists ut'. split; [assumption|]. split; [assumption|].
    intros rest f Hf. rewrite vsize_dict in Hf. destruct f as [|f]; [lia|].
    destruct (U rest f ltac:(lia)) as (Un & Ue). pose proof (kvsize_len kv) as Hlen.
    assert (MK : VDict (mk_dict (map normp kv)) = norm (VDict kv)).
    { cbn [norm]. f_equal. apply mk_dict_fresh. rewrite map_map. cbn [normp fst].
      rewrite <- (map_map fst norm). now apply keys_norm. }
    destruct (N.leb_spec (lenN kv) 14) as [C|C].
    + rewrite wrap_counted by assumption. cbn [app]. rewrite unpack_f_dict by lia.
      replace ((224 + lenN kv) mod 16) with (lenN kv) by lia.
      destruct (lenN kv =? 15) eqn:E15; [lia|].
      unfold lenN at 1. rewrite Nat2N.id, Un, MK. reflexivity.
    + rewrite wrap_endless by lia. cbn [app]. rewrite unpack_f_dict by lia.
      change ((224 + 15) mod 16 =? 15) with true. cbv iota. rewrite <- app_assoc. cbn [app].
      rewrite Ue by lia. rewrite MK. reflexivity.
Qed.

(* unpack(pack(v) + rest) == (v, rest) *)
Theorem roundtrip v bs pt rest :
  wf v -> pack_v v [] = Ok (bs, pt) -> lenN pt <= 0x10000 -> unpack (bs ++ rest) = Ok (norm v, rest).
Proof.
  intros W P B.
  destruct (roundtrip_gen v [] bs pt [] W P eq_refl (Forall_nil _) B) as (ut' & _ & _ & U).
  destruct (pack_facts v _ _ _ W P) as (_ & _ & L).
  unfold unpack. rewrite U; [reflexivity|]. rewrite app_length. lia.
Qed.
