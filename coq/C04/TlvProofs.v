From Coq Require Import Arith NArith List Bool Lia.
From PV Require Import Common.Endian C04.TlvModel.
Import ListNotations.
Local Open Scope N_scope.

Definition keys (r : tlv) := map fst r.

Lemma upd_new tag v r : ~ In tag (keys r) -> upd tag v r = r ++ [(tag, v)].
Proof.
  induction r as [|[t x] r IH]; intro H; simpl; [reflexivity|].
  simpl in H. destruct (t =? tag) eqn:E.
  - apply N.eqb_eq in E. tauto.
  - rewrite IH; tauto.
Qed.

Lemma upd_existing tag v r1 x r2 : ~ In tag (keys r1) ->
  upd tag v (r1 ++ (tag, x) :: r2) = r1 ++ (tag, x ++ v) :: r2.
Proof.
  induction r1 as [|[t y] r1 IH]; intro H; simpl.
  - now rewrite N.eqb_refl.
  - simpl in H. destruct (t =? tag) eqn:E.
    + apply N.eqb_eq in E. tauto.
    + rewrite IH; tauto.
Qed.

Lemma firstn_skipn_len {A} n (l : list A) : (length (skipn n l) = length l - n)%nat.
Proof. apply skipn_length. Qed.

Lemma read_irrel : forall f1 f2 data r,
  (length data <= f1)%nat -> (length data <= f2)%nat -> read_tlv_f f1 data r = read_tlv_f f2 data r.
Proof.
  induction f1 as [|f1 IH]; intros f2 data r H1 H2.
  - destruct data as [|a [|b t]]; simpl in *; try reflexivity; try lia. destruct f2; reflexivity.
  - destruct data as [|a [|b t]]; try (destruct f2; reflexivity).
    destruct f2 as [|f2]; [simpl in H2; lia|].
    cbn [read_tlv_f]. apply IH; rewrite skipn_length; simpl in *; lia.
Qed.

Lemma chunk_step tag v : v <> [] -> forall f,
  chunks (S f) tag v = tag :: N.of_nat (length (firstn 255 v)) :: firstn 255 v ++ chunks f tag (skipn 255 v).
Proof. intros Hv f. cbn [chunks]. destruct v; [congruence|reflexivity]. Qed.

(* one fragment: header, up to 255 bytes, then whatever follows *)
Lemma read_fragment tag c rest r rf :
  (length c <= 255)%nat -> (length (tag :: N.of_nat (length c) :: c ++ rest) <= rf)%nat ->
  read_tlv_f rf (tag :: N.of_nat (length c) :: c ++ rest) r =
  read_tlv_f (length rest) rest (upd tag c r).
Proof.
  intros Hc Hrf. destruct rf as [|rf']; [simpl in Hrf; lia|].
  cbn [read_tlv_f]. rewrite Nat2N.id.
  rewrite (firstn_app (length c)), firstn_all, Nat.sub_diag, firstn_O, app_nil_r.
  rewrite (skipn_app (length c)), skipn_all, Nat.sub_diag, skipn_O. cbn [app].
  apply read_irrel; [|lia]. cbn [length] in Hrf. rewrite app_length in Hrf. lia.
Qed.

(* reading the fragments of one value appends the value to the entry of its tag *)
Lemma read_chunks : forall fuel tag v rest r1 x r2 rf,
  (length v <= fuel)%nat -> ~ In tag (keys r1) ->
  (length (chunks fuel tag v ++ rest) <= rf)%nat ->
  read_tlv_f rf (chunks fuel tag v ++ rest) (r1 ++ (tag, x) :: r2) =
  read_tlv_f (length rest) rest (r1 ++ (tag, x ++ v) :: r2).
Proof.
  induction fuel as [|f IH]; intros tag v rest r1 x r2 rf Hf Hk Hrf.
  - destruct v; [|simpl in Hf; lia]. cbn [chunks app] in *. rewrite app_nil_r. now apply read_irrel.
  - destruct v as [|b v'] eqn:Ev.
    + cbn [chunks app] in *. rewrite app_nil_r. now apply read_irrel.
    + rewrite <- Ev in *. assert (Hv: v <> []) by (subst; discriminate).
      rewrite (chunk_step tag v Hv) in *. cbn [app] in *. rewrite <- app_assoc in *.
      rewrite read_fragment; [|apply firstn_le_length|exact Hrf].
      rewrite upd_existing by assumption.
      rewrite IH.
      * rewrite <- app_assoc, firstn_skipn. reflexivity.
      * rewrite skipn_length. subst v. cbn [length] in *. lia.
      * assumption.
      * lia.
Qed.

(* reading one written item adds exactly that item *)
Lemma read_item : forall tag v rest r rf,
  ~ In tag (keys r) -> (length (write_item tag v ++ rest) <= rf)%nat ->
  read_tlv_f rf (write_item tag v ++ rest) r =
  read_tlv_f (length rest) rest (r ++ [(tag, v)]).
Proof.
  intros tag v rest r rf Hk Hrf. unfold write_item in *. destruct v as [|b v'] eqn:Ev.
  - change ([tag; 0] ++ rest) with (tag :: N.of_nat (length (@nil N)) :: [] ++ rest) in *.
    rewrite read_fragment; [|simpl; lia|exact Hrf]. now rewrite upd_new.
  - rewrite <- Ev in *. assert (Hv: v <> []) by (subst; discriminate).
    destruct (length v) as [|f] eqn:El; [destruct v; simpl in El; congruence|].
    rewrite (chunk_step tag v Hv) in *. cbn [app] in *. rewrite <- app_assoc in *.
    rewrite read_fragment; [|apply firstn_le_length|exact Hrf].
    rewrite upd_new by assumption.
    replace (r ++ [(tag, firstn 255 v)]) with (r ++ (tag, firstn 255 v) :: []) by reflexivity.
    rewrite read_chunks.
    + rewrite firstn_skipn. reflexivity.
    + rewrite skipn_length. lia.
    + assumption.
    + lia.
Qed.

Lemma read_write_gen : forall d r rf,
  NoDup (keys r ++ keys d) -> (length (write_tlv d) <= rf)%nat ->
  read_tlv_f rf (write_tlv d) r = TOk (r ++ d).
Proof.
  induction d as [|[tag v] d IH]; intros r rf Hnd Hrf.
  - simpl. rewrite app_nil_r. destruct rf; reflexivity.
  - cbn [write_tlv flat_map fst snd] in *. fold (write_tlv d) in *.
    assert (Hk: ~ In tag (keys r)).
    { cbn [keys map fst] in Hnd. apply NoDup_remove_2 in Hnd. intro Hin. apply Hnd. apply in_or_app. now left. }
    rewrite read_item by assumption.
    rewrite IH.
    + rewrite <- app_assoc. reflexivity.
    + unfold keys in *. rewrite map_app. cbn [map fst]. rewrite <- app_assoc. exact Hnd.
    + lia.
Qed.

(* Every dict with distinct tags reads back identically, whatever the value lengths
   (0, 255, 256, ... any number of fragments). *)
Theorem tlv_roundtrip d : NoDup (keys d) -> read_tlv (write_tlv d) = TOk d.
Proof. intro H. unfold read_tlv. now rewrite read_write_gen. Qed.

(* the length of the data is always enough fuel (C05): two bytes are consumed per step *)
Lemma read_tlv_fuel : forall fuel data r, (length data <= 2 * fuel + 1)%nat -> read_tlv_f fuel data r <> TOutOfFuel.
Proof.
  induction fuel as [|f IH]; intros data r H.
  - destruct data as [|a [|b t]]; simpl in *; try discriminate. lia.
  - destruct data as [|a [|b t]]; cbn [read_tlv_f]; try discriminate.
    apply IH. rewrite skipn_length. simpl in H. lia.
Qed.

Theorem read_tlv_terminates data : read_tlv data <> TOutOfFuel.
Proof. apply read_tlv_fuel. lia. Qed.

(* fragments never exceed 255 bytes, so every length fits its byte *)
Lemma chunks_wf : forall fuel tag v, tag < 256 -> wf_bytes v -> wf_bytes (chunks fuel tag v).
Proof.
  induction fuel as [|f IH]; intros tag v Ht Hv; cbn [chunks]; [constructor|].
  destruct v as [|b v'] eqn:E; [constructor|]. rewrite <- E in *.
  constructor; [assumption|]. constructor.
  - pose proof (firstn_le_length 255 v). lia.
  - apply wf_bytes_app. split; [now apply wf_bytes_firstn|]. apply IH; [assumption|now apply wf_bytes_skipn].
Qed.

Theorem write_tlv_wf d : Forall (fun kv => fst kv < 256 /\ wf_bytes (snd kv)) d -> wf_bytes (write_tlv d).
Proof.
  induction d as [|[t v] d IH]; intro H; cbn [write_tlv flat_map]; [constructor|].
  inversion H as [|? ? [Ht Hv] Hd]; subst. apply wf_bytes_app. split; [|now apply IH].
  unfold write_item. cbn [fst snd] in *. destruct v; [constructor; [assumption|constructor; [lia|constructor]]|].
  now apply chunks_wf.
Qed.
