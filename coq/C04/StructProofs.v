From Coq Require Import Arith NArith List Bool Lia.
From PV Require Import Common.Endian C04.StructModel.
Import ListNotations.
Local Open Scope N_scope.

(* values that struct.pack stores without loss *)
Inductive wf_val : field -> value -> Prop :=
| wf_u k n : n < 256 ^ N.of_nat k -> wf_val (FU k) (VU n)
| wf_s n s : length s = n -> wf_val (FS n) (VS s).

Lemma encode_length : forall fmt vs out, encode fmt vs = Some out -> length out = calcsize fmt.
Proof.
  induction fmt as [|f fmt IH]; intros vs out H.
  - destruct vs; [|discriminate]. inversion H. reflexivity.
  - destruct f as [k|n]; destruct vs as [|[x|s] vs]; try discriminate; cbn [encode] in H.
    + destruct (x <? 256 ^ N.of_nat k); [|discriminate].
      destruct (encode fmt vs) as [o|] eqn:E; [|discriminate]. inversion H; subst.
      rewrite app_length, be_enc_length. unfold calcsize in *. cbn [fold_right fsize]. now rewrite (IH _ _ E).
    + destruct (encode fmt vs) as [o|] eqn:E; [|discriminate]. inversion H; subst.
      rewrite !app_length, repeat_length. unfold calcsize in *. cbn [fold_right fsize]. rewrite (IH _ _ E).
      pose proof (firstn_length n s). lia.
Qed.

Theorem struct_roundtrip_exact : forall fmt vs,
  Forall2 wf_val fmt vs ->
  exists out, encode fmt vs = Some out /\ decode_exact fmt out = vs.
Proof.
  induction fmt as [|f fmt IH]; intros vs H.
  - inversion H; subst. exists []. split; reflexivity.
  - inversion H as [|? v ? vs' Hv Hrest]; subst.
    destruct (IH _ Hrest) as (o & Eo & Hdo).
    inversion Hv as [k n Hn|n s Hs]; subst; cbn [encode].
    + rewrite (proj2 (N.ltb_lt _ _) Hn), Eo. cbn [option_map]. eexists. split; [reflexivity|].
      cbn [decode_exact].
      rewrite <- (be_enc_length k n) at 1 3.
      rewrite firstn_app, firstn_all, Nat.sub_diag, firstn_O, app_nil_r.
      rewrite skipn_app, skipn_all, Nat.sub_diag, skipn_O. cbn [app].
      rewrite be_dec_enc by assumption. reflexivity.
    + rewrite Eo. cbn [option_map]. eexists. split; [reflexivity|].
      rewrite firstn_all, Nat.sub_diag. cbn [repeat]. rewrite app_nil_r.
      cbn [decode_exact].
      rewrite firstn_app, firstn_all, Nat.sub_diag, firstn_O, app_nil_r.
      rewrite skipn_app, skipn_all, Nat.sub_diag, skipn_O. cbn [app]. reflexivity.
Qed.

(* decode(encode(values)) = values for every packet format, with and without trailing data *)
Theorem struct_roundtrip : forall fmt vs,
  Forall2 wf_val fmt vs ->
  exists out, encode fmt vs = Some out /\ decode fmt false out = Some vs /\
              forall extra, decode fmt true (out ++ extra) = Some vs.
Proof.
  intros fmt vs H. destruct (struct_roundtrip_exact fmt vs H) as (out & E & D).
  exists out. pose proof (encode_length _ _ _ E) as L. repeat split; [assumption| |].
  - unfold decode. rewrite L, Nat.eqb_refl. now rewrite D.
  - intro extra. unfold decode. rewrite <- L, firstn_app, firstn_all, Nat.sub_diag, firstn_O, app_nil_r.
    rewrite Nat.eqb_refl. now rewrite D.
Qed.

(* what is written is bytes *)
Theorem encode_wf : forall fmt vs out,
  Forall (fun v => match v with VS s => wf_bytes s | _ => True end) vs ->
  encode fmt vs = Some out -> wf_bytes out.
Proof.
  induction fmt as [|f fmt IH]; intros vs out Hv H.
  - destruct vs; [|discriminate]. inversion H. constructor.
  - destruct f as [k|n]; destruct vs as [|[x|s] vs]; try discriminate; cbn [encode] in H;
      inversion Hv as [|? ? Hx Hvs]; subst.
    + destruct (x <? 256 ^ N.of_nat k); [|discriminate].
      destruct (encode fmt vs) as [o|] eqn:E; [|discriminate]. inversion H; subst.
      apply wf_bytes_app. split; [apply be_enc_wf|eauto].
    + destruct (encode fmt vs) as [o|] eqn:E; [|discriminate]. inversion H; subst.
      apply wf_bytes_app. split; [|eauto]. apply wf_bytes_app. split; [now apply wf_bytes_firstn|].
      unfold wf_bytes. apply Forall_forall. intros y Hy. apply repeat_spec in Hy. subst. lia.
Qed.
