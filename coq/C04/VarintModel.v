(* C04 - protobuf varint, pyatv/support/variant.py.
   `x | y` and `x << k` of the code are written as + and * (the operands are bit-disjoint);
   the differential run checks that rewriting. *)
From Coq Require Import NArith List Lia Bool.
From PV Require Import Common.Cases.
Import ListNotations.
Local Open Scope N_scope.

(* write_variant: recursion on explicit fuel (number of 7-bit groups) *)
Fixpoint write_var (fuel : nat) (n : N) : list N :=
  match fuel with
  | O => []
  | S f => if n <? 128 then [n] else (n mod 128 + 128) :: write_var f (n / 128)
  end.

Definition write_variant (n : N) : list N := write_var (S (N.size_nat n)) n.

(* read_variant: None = ValueError("invalid variant") *)
Fixpoint read_var (l : list N) (mul acc : N) : option (N * list N) :=
  match l with
  | [] => None
  | b :: t =>
      let acc' := acc + (b mod 128) * mul in
      if b <? 128 then Some (acc', t) else read_var t (mul * 128) acc'
  end.

Definition read_variant (l : list N) : option (N * list N) := read_var l 1 0.

Definition opt_pair_beq (a b : option (N * list N)) : bool :=
  match a, b with
  | None, None => true
  | Some (x, r), Some (y, s) => N.eqb x y && bytes_beq r s
  | _, _ => false
  end.
