(* C04 - the OPACK wire format as a RELATION between a value and its encodings, written from
   docs/documentation/protocols.md (section "OPACK": the byte table, "Endless Collections",
   "Pointers"), not from the code.  The relation allows every documented variant:
     - an integer in any sufficiently large size class (0x30..0x34), small ones also in one byte;
     - a string/data object in the short form or with any sufficiently wide length field;
     - float32 for values a float32 holds exactly;
     - counted collections (up to 14 elements) AND endless ones (0xDF/0xEF ... 0x03), any size;
     - a back-reference (0xA0..0xC0, 0xC1..0xC4 + 1..4 index bytes) to ANY earlier table entry
       with the same value - or the object written out again.
   Values are those of OpackModel without int size hints (hint = 0): 0x3020 "= 32".

   Pointer table ("The index table can be constructed by appending every new decoded object
   (excluding ignored types)"; ignored = lists, dictionaries and single-byte objects).  "New" is
   read as: its encoding is not in the table yet.

   `full = true`  : the whole documented table.
   `full = false` : the same minus three forms the table lists but /repo's decoder does not read
                    as documented: 0x6F (null terminated string), and 0x93/0x94 with a 3/4 byte
                    length (the code uses 4/8).  Endless data objects (0x9F) are mentioned in
                    "Endless Collections" without a defined layout and are not in the relation.
   Not in the relation either: 0x06 (absolute mach time; no value type). *)
From Coq Require Import NArith ZArith List Bool Lia.
From PV Require Import Common.Cases Common.Endian C04.OpackModel.
Import ListNotations.
Local Open Scope N_scope.

(* context-free encodings of the non-container objects *)
Inductive leaf_enc (full : bool) : value -> bytes -> Prop :=
| LE_true : leaf_enc full (VBool true) [0x01]
| LE_false : leaf_enc full (VBool false) [0x02]
| LE_null : leaf_enc full VNone [0x04]
| LE_uuid u : length u = 16%nat -> leaf_enc full (VUUID u) (0x05 :: u)
| LE_small z : (-1 <= z < 40)%Z -> leaf_enc full (VInt z 0) [Z.to_N (z + 8)]
| LE_int k z : (k <= 4)%nat -> (0 <= z)%Z -> Z.to_N z < 256 ^ N.of_nat (2 ^ k) ->
    leaf_enc full (VInt z 0) ((0x30 + N.of_nat k) :: le_enc (2 ^ k) (Z.to_N z))
| LE_f32 w : w < 2 ^ 32 -> leaf_enc full (VFloat (le_enc 8 (widen32 w))) (0x35 :: le_enc 4 w)
| LE_f64 bits : length bits = 8%nat -> leaf_enc full (VFloat bits) (0x36 :: bits)
| LE_str_short s : lenN s <= 0x20 -> utf8_valid s = true -> leaf_enc full (VStr s) ((0x40 + lenN s) :: s)
| LE_str_len k s : (1 <= k <= 4)%nat -> lenN s < 256 ^ N.of_nat k -> utf8_valid s = true ->
    leaf_enc full (VStr s) ((0x60 + N.of_nat k) :: le_enc k (lenN s) ++ s)
| LE_str_z s : full = true -> utf8_valid s = true -> ~ In 0 s -> leaf_enc full (VStr s) (0x6F :: s ++ [0])
| LE_data_short s : lenN s <= 0x20 -> leaf_enc full (VBytes s) ((0x70 + lenN s) :: s)
| LE_data_len k s : (1 <= k <= 4)%nat -> (full = true \/ (k <= 2)%nat) -> lenN s < 256 ^ N.of_nat k ->
    leaf_enc full (VBytes s) ((0x90 + N.of_nat k) :: le_enc k (lenN s) ++ s).

(* 0xA0-0xC0 in one byte; 0xC1-0xC4: "the lower nibble (1-4) indicates how many bytes are used for the index" *)
Inductive ptr_enc : N -> bytes -> Prop :=
| PE_short i : i < 0x21 -> ptr_enc i [0xA0 + i]
| PE_len k i : (1 <= k <= 4)%nat -> i < 256 ^ N.of_nat k -> ptr_enc i ((0xC0 + N.of_nat k) :: le_enc k i).

Definition stab := list (bytes * value).

(* the table after an object with encoding e and value v has been read or written in full *)
Inductive stab_next (t : stab) (e : bytes) (v : value) : stab -> Prop :=
| SN_new : (1 < length e)%nat -> ~ In e (map fst t) -> stab_next t e v (t ++ [(e, v)])
| SN_single : length e = 1%nat -> stab_next t e v t
| SN_seen : In e (map fst t) -> stab_next t e v t.

(* dictionary keys: hashable, not NaN, pairwise different *)
Definition dkeys_ok (ks : list value) : Prop :=
  Forall (fun k => hashable k = true /\ match k with VFloat b => is_nan b = false | _ => True end) ks /\
  ForallOrdPairs (fun a b => key_eq a b = false) ks.

Inductive enc (full : bool) : stab -> value -> bytes -> stab -> Prop :=
| E_leaf t v e t' : leaf_enc full v e -> stab_next t e v t' -> enc full t v e t'
| E_ptr t i e v p : nth_error t i = Some (e, v) -> ptr_enc (N.of_nat i) p -> enc full t v p t
| E_list_counted t l bs t' : (length l <= 14)%nat -> encs full t l bs t' ->
    enc full t (VList l) ((0xD0 + lenN l) :: bs) t'
| E_list_endless t l bs t' : encs full t l bs t' -> enc full t (VList l) (0xDF :: bs ++ [0x03]) t'
| E_dict_counted t kv bs t' : (length kv <= 14)%nat -> dkeys_ok (map fst kv) -> enckv full t kv bs t' ->
    enc full t (VDict kv) ((0xE0 + lenN kv) :: bs) t'
| E_dict_endless t kv bs t' : dkeys_ok (map fst kv) -> enckv full t kv bs t' ->
    enc full t (VDict kv) (0xEF :: bs ++ [0x03]) t'
with encs (full : bool) : stab -> list value -> bytes -> stab -> Prop :=
| ES_nil t : encs full t [] [] t
| ES_cons t v bs t1 l bs' t2 : enc full t v bs t1 -> encs full t1 l bs' t2 -> encs full t (v :: l) (bs ++ bs') t2
with enckv (full : bool) : stab -> list (value * value) -> bytes -> stab -> Prop :=
| EK_nil t : enckv full t [] [] t
| EK_cons t k bk t1 v bv t2 l bs' t3 :
    enc full t k bk t1 -> enc full t1 v bv t2 -> enckv full t2 l bs' t3 ->
    enckv full t ((k, v) :: l) (bk ++ bv ++ bs') t3.

Scheme enc_mind := Minimality for enc Sort Prop
  with encs_mind := Minimality for encs Sort Prop
  with enckv_mind := Minimality for enckv Sort Prop.
Combined Scheme enc_mutind from enc_mind, encs_mind, enckv_mind.

(* a complete message starts with an empty table *)
Definition enc_rel (v : value) (bs : bytes) : Prop := exists t, enc true [] v bs t.
(* ... restricted to the forms /repo's decoder reads as documented *)
Definition enc_rel_core (v : value) (bs : bytes) : Prop := exists t, enc false [] v bs t.
