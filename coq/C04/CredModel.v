(* C04 - credential strings, pyatv/auth/hap_pairing.py HapCredentials.__str__ / parse_credentials.
   Characters are their code points (all ASCII here). *)
From Coq Require Import NArith List Bool Lia.
From PV Require Import Common.Cases.
Import ListNotations.
Local Open Scope N_scope.

Definition colon : N := 58.

Definition hexdigit (d : N) : N := if d <? 10 then 48 + d else 87 + d.   (* '0'..'9', 'a'..'f' *)

Definition hexlify (bs : list N) : list N :=
  flat_map (fun b => [hexdigit (b / 16); hexdigit (b mod 16)]) bs.

(* binascii.unhexlify accepts both cases *)
Definition unhex1 (c : N) : option N :=
  if (48 <=? c) && (c <=? 57) then Some (c - 48)
  else if (97 <=? c) && (c <=? 102) then Some (c - 87)
  else if (65 <=? c) && (c <=? 70) then Some (c - 55)
  else None.

(* None = binascii.Error (odd length or non-hex digit) *)
Fixpoint unhexlify (s : list N) : option (list N) :=
  match s with
  | [] => Some []
  | [_] => None
  | a :: b :: t =>
      match unhex1 a, unhex1 b, unhexlify t with
      | Some x, Some y, Some r => Some (16 * x + y :: r)
      | _, _, _ => None
      end
  end.

(* str.split(":") *)
Fixpoint split_colon (s : list N) (cur : list N) : list (list N) :=
  match s with
  | [] => [rev cur]
  | c :: t => if c =? colon then rev cur :: split_colon t [] else split_colon t (c :: cur)
  end.

Record creds := { ltpk : list N; ltsk : list N; atv_id : list N; client_id : list N }.

Definition join4 (a b c d : list N) : list N := a ++ colon :: b ++ colon :: c ++ colon :: d.

Definition cred_str (c : creds) : list N :=
  join4 (hexlify (ltpk c)) (hexlify (ltsk c)) (hexlify (atv_id c)) (hexlify (client_id c)).

Inductive pres := POk (c : creds) | PBadHex | PInvalid.

(* HapCredentials._get_auth_type: the constructor raises InvalidCredentialsError for any
   other combination of empty / non-empty fields *)
Definition transient : list N := [116; 114; 97; 110; 115; 105; 101; 110; 116].
Definition isnil (l : list N) : bool := match l with [] => true | _ => false end.
Definition valid_shape (c : creds) : bool :=
  (isnil (ltpk c) && isnil (ltsk c) && isnil (atv_id c) && isnil (client_id c))
  || bytes_beq (ltpk c) transient
  || (isnil (ltpk c) && negb (isnil (ltsk c)) && isnil (atv_id c) && negb (isnil (client_id c)))
  || (negb (isnil (ltpk c)) && negb (isnil (ltsk c)) && negb (isnil (atv_id c)) && negb (isnil (client_id c))).
Definition mk (c : creds) : pres := if valid_shape c then POk c else PInvalid.

Definition parse_credentials (s : list N) : pres :=
  match split_colon s [] with
  | [a; b] =>
      match unhexlify a with
      | None => PBadHex
      | Some cid => match unhexlify b with
                    | None => PBadHex
                    | Some sk => mk {| ltpk := []; ltsk := sk; atv_id := []; client_id := cid |}
                    end
      end
  | [a; b; c; d] =>
      match unhexlify a with None => PBadHex | Some pa =>
      match unhexlify b with None => PBadHex | Some pb =>
      match unhexlify c with None => PBadHex | Some pc =>
      match unhexlify d with None => PBadHex | Some pd =>
        mk {| ltpk := pa; ltsk := pb; atv_id := pc; client_id := pd |} end end end end
  | _ => PInvalid
  end.

Definition creds_beq (a b : creds) : bool :=
  bytes_beq (ltpk a) (ltpk b) && bytes_beq (ltsk a) (ltsk b) &&
  bytes_beq (atv_id a) (atv_id b) && bytes_beq (client_id a) (client_id b).
Definition pres_beq (a b : pres) : bool :=
  match a, b with
  | POk x, POk y => creds_beq x y
  | PBadHex, PBadHex | PInvalid, PInvalid => true
  | _, _ => false
  end.

Definition check_str (c : creds * list N) : bool := bytes_beq (cred_str (fst c)) (snd c).
Definition check_parse (c : list N * pres) : bool := pres_beq (parse_credentials (fst c)) (snd c).
