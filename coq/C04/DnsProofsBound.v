(* C05 - progress of the message decoder: every question that is parsed consumes at least 5
   bytes of the message and every resource record at least 11, and the stream never runs past
   the end.  So the section loops of DnsMessage.unpack make at most len/5 successful iterations,
   whatever counts (up to 65535 each) a hostile header claims. *)
From Coq Require Import NArith ZArith List Bool Arith Lia ZifyBool.
From PV Require Import Common.Cases Common.Endian C04.DnsSpec C04.DnsModel C04.DnsProofs.
Import ListNotations.
Local Open Scope N_scope.

Lemma loop_end_bounds : forall f buf pos acc comp vis ls e,
  parse_name_loop f buf pos acc comp vis = DOk (ls, e) ->
  match comp with
  | Some c => e = c
  | None => (pos < e <= length buf)%nat
  end.
Proof.
  induction f as [|f IH]; intros buf pos acc comp vis ls e H; [discriminate|].
  cbn [parse_name_loop] in H.
  destruct (nth_error buf pos) as [len|] eqn:Hp; [|discriminate].
  assert (Hpl : (pos < length buf)%nat) by (apply nth_error_Some; congruence).
  destruct (len =? 0).
  { injection H as _ He. destruct comp; [auto|lia]. }
  destruct (negb ((len / 64 =? 0) || (len / 64 =? 3))); [discriminate|].
  destruct (len / 64 =? 3).
  - destruct (nth_error buf (S pos)) as [lo|] eqn:Hq; [|discriminate].
    assert (Hql : (S pos < length buf)%nat) by (apply nth_error_Some; congruence).
    destruct (existsb _ vis); [discriminate|].
    apply IH in H. destruct comp; [exact H|]. lia.
  - unfold rd in H. set (lab := firstn (N.to_nat len) (skipn (S pos) buf)) in *.
    destruct (is_xn lab); [discriminate|]. destruct (utf8_valid lab); [|discriminate].
    apply IH in H. destruct comp; [exact H|]. lia.
Qed.

Lemma parse_name_bounds buf p ls e : parse_name buf p = DOk (ls, e) -> (p < e <= length buf)%nat.
Proof. rewrite parse_name_eq. intro H. exact (loop_end_bounds _ _ _ _ None _ _ _ H). Qed.

Lemma parse_domain_name_bounds buf p s e :
  parse_domain_name buf p = DOk (s, e) -> (p < e <= length buf)%nat.
Proof.
  unfold parse_domain_name. destruct (parse_name buf p) as [[ls e']| |] eqn:E; cbn; try discriminate.
  intro H. injection H as _ <-. now apply parse_name_bounds in E.
Qed.

Lemma rd_exact_bounds buf p n d e :
  rd_exact buf p n = DOk (d, e) -> (0 < n)%nat -> (e = p + n /\ e <= length buf)%nat.
Proof.
  unfold rd_exact, rd. destruct (_ =? _)%nat eqn:E; [|discriminate]. intros H Hn.
  injection H as <- <-. apply Nat.eqb_eq in E. rewrite E. split; [reflexivity|].
  rewrite firstn_length, skipn_length in E. lia.
Qed.

Lemma rd_bounds buf p n d e : rd buf p n = (d, e) -> (p <= length buf)%nat -> (e <= length buf)%nat.
Proof.
  unfold rd. intros H Hp. inversion H; subst. rewrite firstn_length, skipn_length. lia.
Qed.

Lemma parse_question_bounds buf p q e :
  parse_question buf p = DOk (q, e) -> (p + 5 <= e <= length buf)%nat.
Proof.
  unfold parse_question.
  destruct (parse_domain_name buf p) as [[s e1]| |] eqn:E1; cbn [dbind fst snd]; try discriminate.
  destruct (rd_exact buf e1 4) as [[d e2]| |] eqn:E2; cbn [dbind fst snd]; try discriminate.
  intro H. injection H as _ <-.
  apply parse_domain_name_bounds in E1. apply rd_exact_bounds in E2; lia.
Qed.

Lemma txt_loop_bounds : forall f buf pos stop out t e,
  parse_txt_loop f buf pos stop out = DOk (t, e) -> (pos <= length buf)%nat -> (e <= length buf)%nat.
Proof.
  induction f as [|f IH]; intros buf pos stop out t e H Hp; cbn [parse_txt_loop] in H.
  - destruct (pos <? stop)%nat; [discriminate|]. injection H as _ <-. exact Hp.
  - destruct (pos <? stop)%nat; [|injection H as _ <-; exact Hp].
    destruct (nth_error buf pos) as [len|] eqn:Hn; [|discriminate].
    assert (Hpl : (pos < length buf)%nat) by (apply nth_error_Some; congruence).
    unfold rd in H. set (chunk := firstn (N.to_nat len) (skipn (S pos) buf)) in *.
    assert (Hc : (S pos + length chunk <= length buf)%nat)
      by (unfold chunk; rewrite firstn_length, skipn_length; lia).
    destruct (split_eq chunk) as [[k v]|].
    + destruct k; [now apply IH in H|]. destruct (forallb is_ascii (n :: k)); now apply IH in H.
    + destruct (forallb is_ascii chunk); [now apply IH in H|discriminate].
Qed.

Lemma parse_rdata_bounds t buf p n x e :
  parse_rdata t buf p n = DOk (x, e) -> (p <= length buf)%nat -> (e <= length buf)%nat.
Proof.
  unfold parse_rdata. intros H Hp.
  destruct (t =? 1).
  { destruct (negb _); [discriminate|].
    destruct (rd buf p 4) as [d e1] eqn:Er. apply rd_bounds in Er; [|exact Hp].
    destruct (_ =? _)%nat; [|discriminate]. injection H as _ <-. exact Er. }
  destruct (t =? 12).
  { destruct (parse_domain_name buf p) as [[s e1]| |] eqn:E1; cbn [dbind fst snd] in H; try discriminate.
    injection H as _ <-. apply parse_domain_name_bounds in E1. lia. }
  destruct (t =? 16).
  { unfold parse_txt in H.
    destruct (parse_txt_loop n buf p (p + n) []) as [[x1 e1]| |] eqn:E1; cbn [dbind fst snd] in H; try discriminate.
    injection H as _ <-. now apply txt_loop_bounds in E1. }
  destruct (t =? 33).
  { unfold parse_srv in H.
    destruct (rd_exact buf p 6) as [[d e1]| |]; cbn [dbind fst snd] in H; try discriminate.
    destruct (parse_domain_name buf e1) as [[s e2]| |] eqn:E2; cbn [dbind fst snd] in H; try discriminate.
    injection H as _ <-. apply parse_domain_name_bounds in E2. lia. }
  destruct (rd buf p n) as [d e1] eqn:Er. apply rd_bounds in Er; [|exact Hp].
  injection H as _ <-. exact Er.
Qed.

Lemma parse_resource_bounds buf p r e :
  parse_resource buf p = DOk (r, e) -> (p + 11 <= e <= length buf)%nat.
Proof.
  unfold parse_resource.
  destruct (parse_domain_name buf p) as [[s e1]| |] eqn:E1; cbn [dbind fst snd]; try discriminate.
  destruct (rd_exact buf e1 10) as [[d e2]| |] eqn:E2; cbn [dbind fst snd]; try discriminate.
  destruct (parse_rdata _ buf e2 _) as [[x e3]| |] eqn:E3; cbn [dbind fst snd]; try discriminate.
  destruct (_ =? _)%nat eqn:E4; [|discriminate].
  intro H. injection H as _ <-.
  apply parse_domain_name_bounds in E1. apply rd_exact_bounds in E2; [|lia].
  apply parse_rdata_bounds in E3; [|lia]. apply Nat.eqb_eq in E4. lia.
Qed.

Lemma parse_many_bounds {A} (one : nat -> dres (A * nat)) (c L : nat) :
  (forall p x e, one p = DOk (x, e) -> (p + c <= e <= L)%nat) ->
  forall n pos xs e, parse_many one n pos = DOk (xs, e) -> (pos <= L)%nat ->
  (pos + c * length xs <= e <= L)%nat /\ length xs = n.
Proof.
  intros H n. induction n as [|n IH]; intros pos xs e Hm Hp; cbn [parse_many] in Hm.
  - injection Hm as <- <-. cbn [length]. lia.
  - destruct (one pos) as [[x e1]| |] eqn:E1; cbn [dbind fst snd] in Hm; try discriminate.
    destruct (parse_many one n e1) as [[r e2]| |] eqn:E2; cbn [dbind fst snd] in Hm; try discriminate.
    injection Hm as <- <-. apply H in E1. apply IH in E2; [|lia]. cbn [length]. lia.
Qed.

(* a message that decodes has room for everything that was decoded *)
Theorem unpack_size buf id fl qs an ns ar :
  unpack_msg buf = DOk (M id fl qs an ns ar) ->
  (12 + 5 * length qs + 11 * (length an + length ns + length ar) <= length buf)%nat.
Proof.
  unfold unpack_msg.
  destruct (rd_exact buf 0 12) as [[d e0]| |] eqn:E0; cbn [dbind fst snd]; try discriminate.
  apply rd_exact_bounds in E0; [|lia]. destruct E0 as [-> E0].
  destruct (parse_many (parse_question buf) _ _) as [[q e1]| |] eqn:E1; cbn [dbind fst snd]; try discriminate.
  destruct (parse_many (parse_resource buf) _ e1) as [[a e2]| |] eqn:E2; cbn [dbind fst snd]; try discriminate.
  destruct (parse_many (parse_resource buf) _ e2) as [[n e3]| |] eqn:E3; cbn [dbind fst snd]; try discriminate.
  destruct (parse_many (parse_resource buf) _ e3) as [[r e4]| |] eqn:E4; cbn [dbind fst snd]; try discriminate.
  intro H. injection H as _ _ <- <- <- <-.
  apply (parse_many_bounds _ 5 (length buf) (parse_question_bounds buf)) in E1; [|lia].
  apply (parse_many_bounds _ 11 (length buf) (parse_resource_bounds buf)) in E2; [|lia].
  apply (parse_many_bounds _ 11 (length buf) (parse_resource_bounds buf)) in E3; [|lia].
  apply (parse_many_bounds _ 11 (length buf) (parse_resource_bounds buf)) in E4; [|lia].
  lia.
Qed.
