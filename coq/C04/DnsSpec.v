(* C04 - the DNS wire format, written from RFC 1035 (3.1 name space, 4.1 message layout, 4.1.4
   message compression), RFC 2782 (SRV) and RFC 6763 6 (TXT key=value) - not from the code.

   A message is a byte list; offsets count from its first byte (`nat`).  Values carry names as
   label lists; a label is a non-empty byte string of at most 63 bytes. *)
From Coq Require Import NArith List Bool Arith Lia.
From PV Require Import Common.Endian.
Import ListNotations.
Local Open Scope N_scope.

Definition label_ok (l : list N) : Prop := (1 <= length l <= 63)%nat.

(* 3.1: a name is a sequence of labels, each a length octet followed by that many octets,
   terminated by the zero length octet of the root. *)
Definition enc_label (l : list N) : list N := N.of_nat (length l) :: l.
Definition enc_name (ls : list (list N)) : list N := flat_map enc_label ls ++ [0].

(* 4.1.4: "a domain name in a message can be represented as either: a sequence of labels ending
   in a zero octet, a pointer, a sequence of labels ending with a pointer".  A pointer is two
   octets, the first with its two top bits set, the remaining 14 bits the offset (from the start
   of the message) at which the rest of the name is found.

   name_at buf p ls e : the name represented at offset p of buf is ls, and its representation
   IN PLACE ends at e (after the zero octet, or after the first pointer). The relation is
   inductive, so a chain of pointers that never reaches a root octet represents nothing. *)
Inductive name_at (buf : list N) : nat -> list (list N) -> nat -> Prop :=
| NA_root : forall p,
    nth_error buf p = Some 0 ->
    name_at buf p [] (S p)
| NA_label : forall p len lab ls e,
    nth_error buf p = Some len -> 1 <= len <= 63 ->
    lab = firstn (N.to_nat len) (skipn (S p) buf) -> length lab = N.to_nat len ->
    name_at buf (S p + N.to_nat len) ls e ->
    name_at buf p (lab :: ls) e
| NA_ptr : forall p hi lo ls e',
    nth_error buf p = Some hi -> 192 <= hi < 256 ->
    nth_error buf (S p) = Some lo -> lo < 256 ->
    name_at buf (N.to_nat ((hi - 192) * 256 + lo)) ls e' ->
    name_at buf p ls (S (S p)).

(* a big-endian field of k octets at offset p *)
Definition field_at (buf : list N) (p k : nat) (v : N) : Prop :=
  firstn k (skipn p buf) = be_enc k v /\ v < 256 ^ N.of_nat k.

(* RFC 6763 6.3/6.4: a TXT record is a sequence of strings (length octet + octets), each
   `key=value` or `key`; keys are non-empty ASCII without '=' and compare case-insensitively. *)
Definition enc_txt_entry (k : list N) (v : option (list N)) : list N :=
  match v with
  | None => k
  | Some x => k ++ 61 :: x
  end.
Definition enc_string (s : list N) : list N := N.of_nat (length s) :: s.

(* ------------------------------------------------------------------ 4.1 message layout *)

(* the octets bs are found at offset p *)
Definition block_at (buf : list N) (p : nat) (bs : list N) : Prop :=
  firstn (length bs) (skipn p buf) = bs.

Inductive squestion := SQ (qname : list (list N)) (qtype qclass : N).

(* RDATA by RR type: A (1), PTR (12), TXT (16), SRV (33); anything else is opaque *)
Definition txt_entry := (list N * option (list N))%type.
Inductive srdata :=
| SA (addr : list N)
| SPtr (target : list (list N))
| STxt (attrs : list (list N * list N))
| SSrv (prio weight port : N) (target : list (list N))
| SRaw (b : list N).
Inductive sresource := SR (rname : list (list N)) (rtype rclass ttl rdlength : N) (rd : srdata).
Inductive smsg := SM (id flags : N) (qs : list squestion) (an ns ar : list sresource).

(* RFC 6763 6: attributes; what a reader gets is the key folded to lower case and the value
   (empty when the attribute has none) *)
Definition lower_spec (b : N) : N := if (65 <=? b) && (b <=? 90) then b + 32 else b.
Definition enc_txt (ents : list txt_entry) : list N :=
  flat_map (fun e => enc_string (enc_txt_entry (fst e) (snd e))) ents.
Definition txt_value (ents : list txt_entry) : list (list N * list N) :=
  map (fun e => (map lower_spec (fst e), match snd e with Some v => v | None => [] end)) ents.
Definition txt_key_ok (k : list N) : Prop := k <> [] /\ Forall (fun b => b < 128 /\ b <> 61) k.
Definition txt_ok (ents : list txt_entry) : Prop :=
  Forall (fun e => txt_key_ok (fst e) /\ (length (enc_txt_entry (fst e) (snd e)) <= 255)%nat) ents
  /\ NoDup (map (fun e => map lower_spec (fst e)) ents).

(* 4.1.2 question section entry: QNAME QTYPE QCLASS *)
Inductive question_at (buf : list N) : nat -> squestion -> nat -> Prop :=
| QA : forall p ls e t c,
    name_at buf p ls e -> t < 65536 -> c < 65536 ->
    block_at buf e (be_enc 2 t ++ be_enc 2 c) ->
    question_at buf p (SQ ls t c) (e + 4).

(* rdata_at buf type p n rd : the n octets at p are the RDATA rd of a record of that type.
   Names inside RDATA may be compressed (RFC 1035 for PTR; accepted for SRV as well). *)
Inductive rdata_at (buf : list N) : N -> nat -> nat -> srdata -> Prop :=
| RD_A : forall p d,
    length d = 4%nat -> block_at buf p d -> rdata_at buf 1 p 4 (SA d)
| RD_PTR : forall p ls e,
    name_at buf p ls e -> rdata_at buf 12 p (e - p) (SPtr ls)
| RD_TXT : forall p ents,
    txt_ok ents -> block_at buf p (enc_txt ents) ->
    rdata_at buf 16 p (length (enc_txt ents)) (STxt (txt_value ents))
| RD_SRV : forall p prio w port ls e,
    prio < 65536 -> w < 65536 -> port < 65536 ->
    block_at buf p (be_enc 2 prio ++ be_enc 2 w ++ be_enc 2 port) ->
    name_at buf (p + 6) ls e ->
    rdata_at buf 33 p (e - p) (SSrv prio w port ls)
| RD_RAW : forall ty p b,
    ty <> 1 -> ty <> 12 -> ty <> 16 -> ty <> 33 ->
    block_at buf p b -> rdata_at buf ty p (length b) (SRaw b).

(* 4.1.3 resource record: NAME TYPE CLASS TTL RDLENGTH RDATA *)
Inductive rr_at (buf : list N) : nat -> sresource -> nat -> Prop :=
| RR : forall p ls e t c ttl n rd,
    name_at buf p ls e -> t < 65536 -> c < 65536 -> ttl < 4294967296 -> N.of_nat n < 65536 ->
    block_at buf e (be_enc 2 t ++ be_enc 2 c ++ be_enc 4 ttl ++ be_enc 2 (N.of_nat n)) ->
    rdata_at buf t (e + 10) n rd ->
    rr_at buf p (SR ls t c ttl (N.of_nat n) rd) (e + 10 + n).

Inductive many_at {A} (one_at : nat -> A -> nat -> Prop) : nat -> list A -> nat -> Prop :=
| MA_nil : forall p, many_at one_at p [] p
| MA_cons : forall p x e xs e',
    one_at p x e -> many_at one_at e xs e' -> many_at one_at p (x :: xs) e'.

Definition cnt {A} (l : list A) : N := N.of_nat (length l).

(* 4.1.1 header + the four sections; octets after the last record are not part of the message *)
Definition msg_at (buf : list N) (m : smsg) : Prop :=
  match m with
  | SM id flags qs an ns ar =>
      id < 65536 /\ flags < 65536 /\
      cnt qs < 65536 /\ cnt an < 65536 /\ cnt ns < 65536 /\ cnt ar < 65536 /\
      block_at buf 0 (be_enc 2 id ++ be_enc 2 flags ++ be_enc 2 (cnt qs) ++ be_enc 2 (cnt an)
                      ++ be_enc 2 (cnt ns) ++ be_enc 2 (cnt ar)) /\
      exists e1 e2 e3 e4,
        many_at (question_at buf) 12 qs e1 /\ many_at (rr_at buf) e1 an e2 /\
        many_at (rr_at buf) e2 ns e3 /\ many_at (rr_at buf) e3 ar e4
  end.

(* the encoding without compression (what a sender that never compresses writes) *)
Definition enc_question (q : squestion) : list N :=
  match q with SQ ls t c => enc_name ls ++ be_enc 2 t ++ be_enc 2 c end.
Definition enc_rdata (rd : srdata) : list N :=
  match rd with
  | SA d => d
  | SPtr ls => enc_name ls
  | STxt t => enc_txt (map (fun kv => (fst kv, Some (snd kv))) t)
  | SSrv p w port ls => be_enc 2 p ++ be_enc 2 w ++ be_enc 2 port ++ enc_name ls
  | SRaw b => b
  end.
Definition enc_rr (r : sresource) : list N :=
  match r with
  | SR ls t c ttl n rd => enc_name ls ++ be_enc 2 t ++ be_enc 2 c ++ be_enc 4 ttl ++ be_enc 2 n ++ enc_rdata rd
  end.
Definition enc_msg (m : smsg) : list N :=
  match m with
  | SM id flags qs an ns ar =>
      (be_enc 2 id ++ be_enc 2 flags ++ be_enc 2 (cnt qs) ++ be_enc 2 (cnt an)
       ++ be_enc 2 (cnt ns) ++ be_enc 2 (cnt ar))
      ++ flat_map enc_question qs ++ flat_map enc_rr an ++ flat_map enc_rr ns ++ flat_map enc_rr ar
  end.
