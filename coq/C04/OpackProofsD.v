(* C04 OPACK - the code against the documented format (OpackSpec.enc):
     pack_sound      what _pack writes is a documented encoding of the value;
     unpack_complete what the documented format allows, _unpack reads back to that value. *)
From Coq Require Import NArith ZArith List Bool Lia ZifyBool.
From PV Require Import Common.Cases Common.Endian C04.OpackModel C04.OpackSpec C04.OpackProofsA C04.OpackProofsB
  C04.OpackProofsC.
Import ListNotations.
Local Open Scope N_scope.
Ltac Zify.zify_post_hook ::= Z.to_euclidean_division_equations.

Definition erasep (p : value * value) : value * value := (erase (fst p), erase (snd p)).

(* ------------------------------------------------------------------ erase / norm / keys *)

Lemma erase_norm : forall v, erase (norm v) = erase v.
Proof.
  induction v using value_ind'; try reflexivity.
  - cbn [norm erase]. f_equal. rewrite map_map. apply map_ext_Forall. exact H.
  - cbn [norm erase]. f_equal. rewrite map_map. apply map_ext_Forall.
    eapply Forall_impl; [|exact H]. intros [k x] [H1 H2]. cbn [fst snd] in *. now rewrite H1, H2.
Qed.

Lemma num_of_erase a : num_of (erase a) = num_of a.
Proof. destruct a; reflexivity. Qed.

Lemma key_eq_erase a b : key_eq (erase a) (erase b) = key_eq a b.
Proof. unfold key_eq. rewrite !num_of_erase. destruct a, b; reflexivity. Qed.

Lemma hashable_erase k : hashable (erase k) = hashable k.
Proof. destruct k; reflexivity. Qed.

Lemma keys_erase ks : ForallOrdPairs (fun a b => key_eq a b = false) ks ->
  ForallOrdPairs (fun a b => key_eq a b = false) (map erase ks).
Proof.
  induction 1 as [|a l Ha Hl IH]; cbn [map]; constructor; [|assumption].
  rewrite Forall_map. eapply Forall_impl; [|exact Ha]. intros b Hb. cbn beta. now rewrite key_eq_erase.
Qed.

Lemma keys_unerase ks : ForallOrdPairs (fun a b => key_eq a b = false) (map erase ks) ->
  ForallOrdPairs (fun a b => key_eq a b = false) ks.
Proof.
  induction ks as [|a l IH]; intro H; [constructor|]. cbn [map] in H. inversion H as [|? ? Ha Hl]; subst.
  constructor; [|auto]. rewrite Forall_map in Ha. eapply Forall_impl; [|exact Ha].
  intros b Hb. cbn beta in Hb. now rewrite key_eq_erase in Hb.
Qed.

Lemma dkeys_of_keys ks : keys_ok ks -> dkeys_ok (map erase ks).
Proof.
  intros [H1 H2]. split; [|now apply keys_erase].
  rewrite Forall_map. eapply Forall_impl; [|exact H1]. intros k [Hh Hn]. rewrite hashable_erase.
  split; [assumption|]. destruct k; simpl in *; auto.
Qed.

Lemma lenN_map {A B} (f : A -> B) l : lenN (map f l) = lenN l.
Proof. unfold lenN. now rewrite map_length. Qed.

(* ------------------------------------------------------------------ pack_sound *)

(* the values whose code encoding the documentation covers: data objects below 0x10000 bytes *)
Inductive doc_dom : value -> Prop :=
| dd_leaf v : is_leaf v = true -> (forall s, v = VBytes s -> lenN s < 0x10000) -> doc_dom v
| dd_list l : Forall doc_dom l -> doc_dom (VList l)
| dd_dict kv : Forall (fun p => doc_dom (fst p) /\ doc_dom (snd p)) kv -> doc_dom (VDict kv).

Lemma doc_dom_list l : doc_dom (VList l) -> Forall doc_dom l.
Proof. intro H; inversion H; subst; [discriminate|assumption]. Qed.
Lemma doc_dom_dict kv : doc_dom (VDict kv) -> Forall (fun p => doc_dom (fst p) /\ doc_dom (snd p)) kv.
Proof. intro H; inversion H; subst; [discriminate|assumption]. Qed.
Lemma doc_dom_bytes s : doc_dom (VBytes s) -> lenN s < 0x10000.
Proof. intro H; inversion H; subst. now apply H1. Qed.

Lemma pack_bytes_small s : lenN s < 0x10000 ->
  (lenN s <= 0x20 /\ pack_bytes s = Ok ((0x70 + lenN s) :: s)) \/
  (exists k, (1 <= k <= 2)%nat /\ lenN s < 256 ^ N.of_nat k /\
             pack_bytes s = Ok ((0x90 + N.of_nat k) :: le_enc k (lenN s) ++ s)).
Proof.
  intro H. unfold pack_bytes. set (n := lenN s) in *.
  destruct (n <=? 32) eqn:E0; [left; split; [lia|reflexivity]|]. right.
  destruct (n <=? 255) eqn:E1; [exists 1%nat; repeat split; simpl; lia|].
  destruct (n <=? 65535) eqn:E2; [exists 2%nat; repeat split; simpl; lia|]. lia.
Qed.

Lemma leaf_sound v e : wf v -> doc_dom v -> leaf_bytes v = Some (Ok e) -> leaf_enc false (erase v) e.
Proof.
  intros W D L. destruct v; simpl in L; try discriminate.
  - inversion L; subst. constructor.
  - inversion L; subst. destruct b; constructor.
  - destruct (pack_int_spec z hint (wf_int_inv _ _ W)) as [(Hh & Hz & Hp)|(k & Hk & Hh & Hz & Hp)];
      rewrite Hp in L; inversion L; subst; clear L; cbn [erase].
    + now constructor.
    + constructor; [lia|lia|]. rewrite Nat2N.inj_pow. simpl (N.of_nat 2). lia.
  - destruct (wf_float_inv _ W) as (H0 & _). inversion L; subst. now constructor.
  - destruct (wf_str_inv _ W) as (_ & H2 & H3).
    destruct (pack_str_spec s H3) as [(Hn & Hp)|(k & Hk & Hlt & Hgt & Hp)]; rewrite Hp in L; inversion L; subst; clear L.
    + now constructor.
    + now constructor.
  - destruct (pack_bytes_small s (doc_dom_bytes _ D)) as [(Hn & Hp)|(k & Hk & Hlt & Hp)];
      rewrite Hp in L; inversion L; subst; clear L.
    + now constructor.
    + constructor; [lia|right; lia|assumption].
  - destruct (wf_uuid_inv _ W) as (H0 & _). inversion L; subst. now constructor.
Qed.

(* entries of the spec table carry the (hint-free) value every encodable object with that encoding has *)
Definition st_ok (st : stab) : Prop :=
  Forall (fun p => forall v, wf v -> leaf_bytes v = Some (Ok (fst p)) -> erase v = snd p) st.

Lemma index_of_notin e pt : index_of e pt = None -> ~ In e pt.
Proof.
  induction pt as [|x t IH]; intros H [ ]; simpl in H.
  - subst. now rewrite bytes_beq_refl in H.
  - destruct (bytes_beq x e); [discriminate|]. destruct (index_of e t); [discriminate|]. now apply IH.
Qed.

Definition PS (v : value) : Prop :=
  forall pt bs pt' st, wf v -> doc_dom v -> pack_v v pt = Ok (bs, pt') -> map fst st = pt -> st_ok st ->
    lenN pt' <= 0x10000 ->
    exists st', enc false st (erase v) bs st' /\ map fst st' = pt' /\ st_ok st'.

Lemma erase_leaf_inj v v' e : wf v -> wf v' -> leaf_bytes v = Some (Ok e) -> leaf_bytes v' = Some (Ok e) ->
  erase v' = erase v.
Proof.
  intros W W' L L'. rewrite <- (erase_norm v), <- (erase_norm v'). f_equal.
  eapply denotes_fun; eapply leaf_denotes; eassumption.
Qed.

Lemma ps_leaf v : is_leaf v = true -> PS v.
Proof.
  intros L pt bs pt' st W D P M T B. rewrite pack_v_leaf in P by assumption.
  destruct (leaf_bytes_wf v W L) as (e & He). rewrite He in P. inversion P as [P']; clear P.
  pose proof (leaf_sound v e W D He) as LS.
  destruct (leaf_head_not3 v e W He) as (b & body & Ee & _ & _).
  unfold finish_leaf in P'. destruct (length e =? 1)%nat eqn:E1.
  - inversion P'; subst bs pt'. exists st. split; [|auto].
    apply E_leaf; [assumption|]. apply SN_single. now apply Nat.eqb_eq.
  - apply Nat.eqb_neq in E1. destruct (index_of e pt) as [i|] eqn:Ei.
    + inversion P'; subst bs pt'. exists st. split; [|auto].
      destruct (index_of_some e pt i Ei) as (Hn & Hi).
      rewrite <- M in Hn. destruct (nth_error_map_fst st _ _ Hn) as (x & Hx).
      assert (x = erase v).
      { unfold st_ok in T. rewrite Forall_forall in T. symmetry. apply (T (e, x)); auto. eapply nth_error_In; eassumption. }
      subst x. apply (E_ptr false st (N.to_nat i) e); [assumption|]. rewrite N2Nat.id.
      unfold pack_ptr.
      destruct (i <? 33) eqn:C0; [constructor; lia|].
      destruct (i <=? 255) eqn:C1; [apply (PE_len 1); simpl; lia|].
      destruct (i <=? 65535) eqn:C2; [apply (PE_len 2); simpl; lia|]. exfalso. lia.
    + inversion P'; subst bs pt'. exists (st ++ [(e, erase v)]). split; [|split].
      * apply E_leaf; [assumption|]. apply SN_new.
        { rewrite Ee in *. simpl in *. lia. }
        rewrite M. now apply index_of_notin.
      * now rewrite map_app, M.
      * apply Forall_app. split; [assumption|]. constructor; [|constructor]. cbn [fst snd].
        intros v' W' L'. eapply erase_leaf_inj; eassumption.
Qed.

Lemma ps_seq l : Forall PS l -> Forall wf l -> Forall doc_dom l -> forall pt body pt' st,
  pack_seq pack_v l pt = Ok (body, pt') -> map fst st = pt -> st_ok st -> lenN pt' <= 0x10000 ->
  exists st', encs false st (map erase l) body st' /\ map fst st' = pt' /\ st_ok st'.
Proof.
  induction l as [|x t IH]; intros HR HW HD pt body pt' st P M T B.
  - inversion P; subst body pt'. exists st. split; [constructor|auto].
  - apply Forall_cons_iff in HR. destruct HR as [Rx Rt]. apply Forall_cons_iff in HW. destruct HW as [Wx Wt].
    apply Forall_cons_iff in HD. destruct HD as [Dx Dt].
    rewrite pack_seq_cons in P.
    destruct (pack_v x pt) as [[b1 pt1]| |] eqn:E1; try discriminate.
    destruct (pack_seq pack_v t pt1) as [[b2 pt2]| |] eqn:E2; try discriminate.
    inversion P; subst body pt'; clear P.
    destruct (pf_seq t (all_pf t) Wt _ _ _ E2) as ((ext & Hext) & _).
    assert (B1 : lenN pt1 <= 65536). { pose proof (lenN_grow pt1 ext). rewrite <- Hext in H. lia. }
    destruct (Rx _ _ _ st Wx Dx E1 M T B1) as (st1 & En1 & M1 & T1).
    destruct (IH Rt Wt Dt _ _ _ st1 E2 M1 T1 B) as (st2 & En2 & M2 & T2).
    exists st2. split; [|auto]. cbn [map]. econstructor; eassumption.
Qed.

Lemma ps_seq_kv l : Forall (fun p => PS (fst p) /\ PS (snd p)) l -> Forall (fun p => wf (fst p) /\ wf (snd p)) l ->
  Forall (fun p => doc_dom (fst p) /\ doc_dom (snd p)) l -> forall pt body pt' st,
  pack_seq_kv pack_v l pt = Ok (body, pt') -> map fst st = pt -> st_ok st -> lenN pt' <= 0x10000 ->
  exists st', enckv false st (map erasep l) body st' /\ map fst st' = pt' /\ st_ok st'.
Proof.
  induction l as [|[k x] t IH]; intros HR HW HD pt body pt' st P M T B.
  - inversion P; subst body pt'. exists st. split; [constructor|auto].
  - apply Forall_cons_iff in HR. destruct HR as [[Rk Rx] Rt]. apply Forall_cons_iff in HW. destruct HW as [[Wk Wx] Wt].
    apply Forall_cons_iff in HD. destruct HD as [[Dk Dx] Dt]. cbn [fst snd] in *.
    rewrite pack_seq_kv_cons in P.
    destruct (pack_v k pt) as [[b1 pt1]| |] eqn:E1; try discriminate.
    destruct (pack_v x pt1) as [[b2 pt2]| |] eqn:E2; try discriminate.
    destruct (pack_seq_kv pack_v t pt2) as [[b3 pt3]| |] eqn:E3; try discriminate.
    inversion P; subst body pt'; clear P.
    destruct (pack_facts x _ _ _ Wx E2) as ((ext2 & Hext2) & _ & _).
    destruct (pf_seq_kv t (all_pf_kv t) Wt _ _ _ E3) as ((ext3 & Hext3) & _).
    assert (B2 : lenN pt2 <= 65536). { pose proof (lenN_grow pt2 ext3). rewrite <- Hext3 in H. lia. }
    assert (B1 : lenN pt1 <= 65536). { pose proof (lenN_grow pt1 ext2). rewrite <- Hext2 in H. lia. }
    destruct (Rk _ _ _ st Wk Dk E1 M T B1) as (st1 & En1 & M1 & T1).
    destruct (Rx _ _ _ st1 Wx Dx E2 M1 T1 B2) as (st2 & En2 & M2 & T2).
    destruct (IH Rt Wt Dt _ _ _ st2 E3 M2 T2 B) as (st3 & En3 & M3 & T3).
    exists st3. split; [|auto]. cbn [map]. unfold erasep at 1. cbn [fst snd]. econstructor; eassumption.
Qed.

Theorem pack_sound_gen : forall v, PS v.
Proof.
  induction v using value_ind'; try (apply ps_leaf; reflexivity).
  - intros pt bs pt' st W D P M T B. rewrite pack_v_list in P.
    destruct (pack_seq pack_v l pt) as [[body pt1]| |] eqn:E; try discriminate. inversion P; subst bs pt'; clear P.
    destruct (ps_seq l H (wf_list_inv _ W) (doc_dom_list _ D) _ _ _ st E M T B) as (st' & En & M' & T').
    exists st'. split; [|auto]. cbn [erase].
    destruct (N.leb_spec (lenN l) 14) as [C|C].
    + rewrite wrap_counted by assumption. rewrite <- (lenN_map erase l).
      apply E_list_counted; [|assumption]. rewrite map_length. unfold lenN in C. lia.
    + rewrite wrap_endless by lia. now apply E_list_endless.
  - intros pt bs pt' st W D P M T B. rewrite pack_v_dict in P.
    destruct (pack_seq_kv pack_v kv pt) as [[body pt1]| |] eqn:E; try discriminate. inversion P; subst bs pt'; clear P.
    destruct (wf_dict_inv _ W) as (Wkv & Hkeys).
    destruct (ps_seq_kv kv H Wkv (doc_dom_dict _ D) _ _ _ st E M T B) as (st' & En & M' & T').
    exists st'. split; [|auto]. cbn [erase]. fold erasep.
    assert (DK : dkeys_ok (map fst (map erasep kv))).
    { rewrite map_map. cbn [erasep fst]. rewrite <- (map_map fst erase). now apply dkeys_of_keys. }
    destruct (N.leb_spec (lenN kv) 14) as [C|C].
    + rewrite wrap_counted by assumption. rewrite <- (lenN_map erasep kv).
      apply E_dict_counted; [|assumption|assumption]. rewrite map_length. unfold lenN in C. lia.
    + rewrite wrap_endless by lia. now apply E_dict_endless.
Qed.

Lemma enc_core_full : forall st a bs st', enc false st a bs st' -> enc true st a bs st'.
Proof.
  assert (LE : forall v e, leaf_enc false v e -> leaf_enc true v e).
  { intros v e H. inversion H; subst; try (constructor; assumption); try discriminate.
    constructor; auto. }
  apply (proj1 (enc_mutind false (fun st a bs st' => enc true st a bs st')
                  (fun st l bs st' => encs true st l bs st') (fun st l bs st' => enckv true st l bs st')
     ltac:(intros; apply E_leaf; auto) ltac:(intros; eapply E_ptr; eauto)
     ltac:(intros; apply E_list_counted; auto) ltac:(intros; apply E_list_endless; auto)
     ltac:(intros; apply E_dict_counted; auto) ltac:(intros; apply E_dict_endless; auto)
     ltac:(intros; constructor) ltac:(intros; econstructor; eauto)
     ltac:(intros; constructor) ltac:(intros; econstructor; eauto))).
Qed.

(* what we send is in the documented format *)
Theorem pack_sound v bs pt :
  wf v -> doc_dom v -> pack_v v [] = Ok (bs, pt) -> lenN pt <= 0x10000 ->
  enc_rel_core (erase v) bs /\ enc_rel (erase v) bs.
Proof.
  intros W D P B. destruct (pack_sound_gen v [] bs pt [] W D P eq_refl (Forall_nil _) B) as (st' & En & _ & _).
  split; exists st'; [assumption|now apply enc_core_full].
Qed.

(* ------------------------------------------------------------------ unpack_complete *)

(* spec table = decoder's object list with the size hints forgotten *)
Definition corr (st : stab) (ut : utable) : Prop := st = map (fun p => (fst p, erase (snd p))) ut.

Lemma corr_fst st ut : corr st ut -> map fst st = map fst ut.
Proof. intros ->. rewrite map_map. reflexivity. Qed.

Lemma corr_nth st ut i e a : corr st ut -> nth_error st i = Some (e, a) ->
  exists v, nth_error ut i = Some (e, v) /\ erase v = a.
Proof.
  intros -> H. rewrite nth_error_map in H. destruct (nth_error ut i) as [[e' v]|]; [|discriminate].
  cbn in H. inversion H; subst. eauto.
Qed.

Lemma existsb_in e (ut : utable) : existsb (fun o => bytes_beq e (fst o)) ut = true <-> In e (map fst ut).
Proof.
  rewrite existsb_exists. split.
  - intros (x & Hx & Hb). apply bytes_beq_eq in Hb. subst. now apply in_map.
  - intro H. apply in_map_iff in H. destruct H as (x & <- & Hx). exists x. split; [assumption|apply bytes_beq_refl].
Qed.

(* the decoder's list follows the documented rule *)
Lemma table_add_next st ut e a v st' :
  corr st ut -> erase v = a -> stab_next st e a st' -> corr st' (table_add e v ut).
Proof.
  intros C Ev N. pose proof (corr_fst _ _ C) as F. unfold table_add. inversion N; subst st'.
  - assert (existsb (fun o => bytes_beq e (fst o)) ut = false).
    { apply Bool.not_true_is_false. intro E. apply existsb_in in E. rewrite <- F in E. contradiction. }
    rewrite H1. apply Nat.ltb_lt in H. rewrite H. cbn [andb negb].
    unfold corr in *. rewrite map_app. cbn [map fst snd]. now rewrite C, Ev.
  - rewrite H. exact C.
  - rewrite F in H. apply existsb_in in H. rewrite H. rewrite andb_false_r. exact C.
Qed.

Lemma leaf_complete a e : leaf_enc false a e ->
  exists b body v, e = b :: body /\ erase v = a /\
    forall rest, exists add, unpack_leaf b (body ++ rest) = Some (Ok (v, rest, add)) /\
                             (add = false -> length e = 1%nat).
Proof.
  intro H. inversion H; subst; clear H.
  - exists 1, [], (VBool true). repeat split. intro rest. exists false. split; reflexivity.
  - exists 2, [], (VBool false). repeat split. intro rest. exists false. split; reflexivity.
  - exists 4, [], VNone. repeat split. intro rest. exists false. split; reflexivity.
  - exists 5, u, (VUUID u). repeat split. intro rest. exists true. split; [|discriminate].
    rewrite ul_uuid. rewrite takeN_app_len by (unfold lenN; rewrite H0; reflexivity).
    rewrite dropN_app_len by (unfold lenN; rewrite H0; reflexivity). unfold lenN. rewrite H0. reflexivity.
  - exists (Z.to_N (z + 8)), [], (VInt z 0). repeat split. intro rest. exists false. split; [|reflexivity].
    cbn [app]. rewrite ul_small by lia. repeat f_equal. lia.
  - exists (0x30 + N.of_nat k), (le_enc (2 ^ k) (Z.to_N z)), (VInt z (2 ^ N.of_nat k)). repeat split.
    intro rest. exists true. split; [|discriminate]. rewrite ul_int by lia.
    assert (HL : 2 ^ N.of_nat k = lenN (le_enc (2 ^ k) (Z.to_N z))).
    { rewrite lenN_le_enc, Nat2N.inj_pow. reflexivity. }
    rewrite takeN_app_len by exact HL. rewrite dropN_app_len by exact HL.
    rewrite le_dec_enc by assumption. repeat f_equal. lia.
  - exists 0x35, (le_enc 4 w), (VFloat (le_enc 8 (widen32 w))). repeat split.
    intro rest. exists true. split; [|discriminate]. rewrite ul_f32.
    rewrite (takeN_app_len (le_enc 4 w) rest 4) by reflexivity.
    rewrite (dropN_app_len (le_enc 4 w) rest 4) by reflexivity.
    rewrite le_dec_enc by (simpl; lia). reflexivity.
  - exists 0x36, bits, (VFloat bits). repeat split. intro rest. exists true. split; [|discriminate].
    rewrite ul_f64. rewrite takeN_app_len by (unfold lenN; rewrite H0; reflexivity).
    rewrite dropN_app_len by (unfold lenN; rewrite H0; reflexivity). unfold lenN. rewrite H0. reflexivity.
  - exists (0x40 + lenN s), s, (VStr s). repeat split. intro rest. exists true. split; [|discriminate].
    rewrite ul_str_short by lia. replace (0x40 + lenN s - 0x40) with (lenN s) by lia.
    rewrite takeN_app_len, dropN_app_len by reflexivity. rewrite H1. reflexivity.
  - exists (0x60 + N.of_nat k), (le_enc k (lenN s) ++ s), (VStr s). repeat split.
    intro rest. exists true. split; [|discriminate]. rewrite ul_str_len by lia.
    destruct (lp_read k (lenN s) s rest eq_refl H1) as (R1 & R2 & R3).
    cbv zeta. rewrite R1, R2, R3, H2. reflexivity.
  - discriminate.
  - exists (0x70 + lenN s), s, (VBytes s). repeat split. intro rest. exists true. split; [|discriminate].
    rewrite ul_bytes_short by lia. replace (0x70 + lenN s - 0x70) with (lenN s) by lia.
    rewrite takeN_app_len, dropN_app_len by reflexivity. reflexivity.
  - destruct H1 as [|Hk]; [discriminate|].
    exists (0x90 + N.of_nat k), (le_enc k (lenN s) ++ s), (VBytes s). repeat split.
    intro rest. exists true. split; [|discriminate]. rewrite ul_bytes_len by lia.
    destruct (lp_read k (lenN s) s rest eq_refl H2) as (R1 & R2 & R3).
    assert (E : 2 ^ (N.of_nat k - 1) = N.of_nat k).
    { destruct k as [|[|[|k]]]; try reflexivity; lia. }
    cbv zeta. rewrite E, R1, R2, R3. reflexivity.
Qed.

Lemma unpack_f_ok_head f d t r : unpack_f f d t = Ok r -> exists hb tl, d = hb :: tl /\ hb <> 3.
Proof.
  destruct f as [|f]; [discriminate|]. cbn [unpack_f]. destruct d as [|b rest]; [discriminate|].
  intro H. exists b, rest. split; [reflexivity|]. intros ->. rewrite ul_three in H.
  change (3 / 16 =? 13) with false in H. change (224 <=? 3) with false in H.
  change ((160 <=? 3) && (3 <=? 192)) with false in H. change ((193 <=? 3) && (3 <=? 196)) with false in H.
  discriminate.
Qed.

Definition UC (st : stab) (a : value) (bs : bytes) (st' : stab) : Prop :=
  forall ut, corr st ut ->
  exists v ut' f0, erase v = a /\ corr st' ut' /\
    forall rest f, (f0 <= f)%nat -> unpack_f f (bs ++ rest) ut = Ok (v, rest, ut').

Definition UCS (st : stab) (l : list value) (bs : bytes) (st' : stab) : Prop :=
  forall ut, corr st ut ->
  exists vs ut' f0, map erase vs = l /\ corr st' ut' /\
    forall rest f, (f0 <= f)%nat ->
      unpack_n (unpack_f f) (length l) (bs ++ rest) ut = Ok (vs, rest, ut') /\
      (forall n, (length l < n)%nat -> unpack_endless (unpack_f f) n (bs ++ 3 :: rest) ut = Ok (vs, rest, ut')).

Definition UCK (st : stab) (l : list (value * value)) (bs : bytes) (st' : stab) : Prop :=
  forall ut, corr st ut -> Forall (fun k => hashable k = true) (map fst l) ->
  exists kvs ut' f0, map erasep kvs = l /\ corr st' ut' /\
    forall rest f, (f0 <= f)%nat ->
      unpack_n_kv (unpack_f f) (length l) (bs ++ rest) ut = Ok (kvs, rest, ut') /\
      (forall n, (length l < n)%nat -> unpack_endless_kv (unpack_f f) n (bs ++ 3 :: rest) ut = Ok (kvs, rest, ut')).

Lemma uc_leaf st a e st' : leaf_enc false a e -> stab_next st e a st' -> UC st a e st'.
Proof.
  intros LE N ut C. destruct (leaf_complete a e LE) as (b & body & v & Ee & Ev & U).
  exists v, (table_add e v ut), 1%nat. split; [assumption|]. split; [eapply table_add_next; eassumption|].
  intros rest f Hf. destruct f as [|f]; [lia|]. destruct (U rest) as (add & U1 & Hadd).
  rewrite Ee. cbn [app]. rewrite (unpack_f_leaf f b (body ++ rest) ut _ _ _ U1).
  change (b :: body ++ rest) with ((b :: body) ++ rest). rewrite consumed_app, <- Ee.
  rewrite table_flag by assumption. reflexivity.
Qed.

Lemma uc_ptr st i e a p : nth_error st i = Some (e, a) -> ptr_enc (N.of_nat i) p -> UC st a p st.
Proof.
  intros Hn Hp ut C. destruct (corr_nth _ _ _ _ _ C Hn) as (v & Hv & Ev).
  exists v, ut, 1%nat. split; [assumption|]. split; [assumption|].
  intros rest f Hf. destruct f as [|f]; [lia|]. inversion Hp; subst.
  - cbn [app]. rewrite unpack_f_ptr_short by lia. replace (160 + N.of_nat i - 160) with (N.of_nat i) by lia.
    rewrite nthN_nth_error, Nat2N.id, Hv. reflexivity.
  - cbn [app]. rewrite unpack_f_ptr_len by lia. replace (192 + N.of_nat k - 192) with (N.of_nat k) by lia.
    rewrite takeN_app_len by (now rewrite lenN_le_enc). rewrite dropN_app_len by (now rewrite lenN_le_enc).
    rewrite le_dec_enc by assumption. rewrite nthN_nth_error, Nat2N.id, Hv. reflexivity.
Qed.

Lemma dkeys_hashable ks : dkeys_ok ks -> Forall (fun k => hashable k = true) ks.
Proof. intros [H _]. eapply Forall_impl; [|exact H]. intros k [Hk _]. exact Hk. Qed.

Lemma mk_dict_decoded kvs kv : map erasep kvs = kv -> dkeys_ok (map fst kv) -> mk_dict kvs = kvs.
Proof.
  intros E [_ D]. apply mk_dict_fresh. apply keys_unerase. subst kv.
  rewrite map_map in D. cbn [erasep fst] in D. now rewrite map_map.
Qed.

Lemma ucs_nil st : UCS st [] [] st.
Proof.
  intros ut C. exists [], ut, 0%nat. split; [reflexivity|]. split; [assumption|].
  intros rest f _. split; [reflexivity|]. intros n Hn. destruct n; [simpl in Hn; lia|]. reflexivity.
Qed.

Lemma ucs_cons t v bs t1 l bs' t2 :
  enc false t v bs t1 -> UC t v bs t1 -> encs false t1 l bs' t2 -> UCS t1 l bs' t2 -> UCS t (v :: l) (bs ++ bs') t2.
Proof.
  intros _ IHv _ IHl ut C.
  destruct (IHv ut C) as (v' & ut1 & f1 & Ev & C1 & U1).
  destruct (IHl ut1 C1) as (vs & ut2 & f2 & Evs & C2 & U2).
  exists (v' :: vs), ut2, (Nat.max f1 f2). split; [cbn [map]; now rewrite Ev, Evs|]. split; [assumption|].
  intros rest f Hf.
  destruct (unpack_f_ok_head _ _ _ _ (U1 [] f1 (Nat.le_refl _))) as (hb & tl & Hb & Hhb).
  rewrite app_nil_r in Hb. split.
  - cbn [length unpack_n]. rewrite <- app_assoc. rewrite U1 by lia.
    destruct (U2 rest f ltac:(lia)) as (A & _). rewrite A. reflexivity.
  - intros n Hn. destruct n; [lia|]. cbn [length] in Hn. rewrite <- app_assoc.
    rewrite (unpack_endless_step _ _ _ _ hb (tl ++ bs' ++ 3 :: rest)) by (subst bs; auto).
    rewrite U1 by lia. destruct (U2 rest f ltac:(lia)) as (_ & A). rewrite A by lia. reflexivity.
Qed.

Lemma uck_nil st : UCK st [] [] st.
Proof.
  intros ut C _. exists [], ut, 0%nat. split; [reflexivity|]. split; [assumption|].
  intros rest f _. split; [reflexivity|]. intros n Hn. destruct n; [simpl in Hn; lia|]. reflexivity.
Qed.

Lemma uck_cons t k bk t1 v bv t2 l bs' t3 :
  enc false t k bk t1 -> UC t k bk t1 -> enc false t1 v bv t2 -> UC t1 v bv t2 ->
  enckv false t2 l bs' t3 -> UCK t2 l bs' t3 -> UCK t ((k, v) :: l) (bk ++ bv ++ bs') t3.
Proof.
  intros _ IHk _ IHv _ IHl ut C HH. cbn [map fst] in HH. apply Forall_cons_iff in HH. destruct HH as [Hk Ht].
  destruct (IHk ut C) as (k' & ut1 & f1 & Ek & C1 & U1).
  destruct (IHv ut1 C1) as (v' & ut2 & f2 & Ev & C2 & U2).
  destruct (IHl ut2 C2 Ht) as (kvs & ut3 & f3 & Ekvs & C3 & U3).
  exists ((k', v') :: kvs), ut3, (Nat.max f1 (Nat.max f2 f3)).
  split; [cbn [map]; unfold erasep at 1; cbn [fst snd]; now rewrite Ek, Ev, Ekvs|]. split; [assumption|].
  intros rest f Hf.
  destruct (unpack_f_ok_head _ _ _ _ (U1 [] f1 (Nat.le_refl _))) as (hb & tl & Hb & Hhb).
  rewrite app_nil_r in Hb.
  assert (UP : forall tail, unpack_pair (unpack_f f) (bk ++ bv ++ tail) ut = Ok (k', v', tail, ut2)).
  { intro tail. unfold unpack_pair. rewrite U1 by lia. rewrite U2 by lia.
    rewrite <- hashable_erase, Ek, Hk. reflexivity. }
  split.
  - cbn [length unpack_n_kv]. rewrite <- !app_assoc. rewrite UP.
    destruct (U3 rest f ltac:(lia)) as (A & _). rewrite A. reflexivity.
  - intros n Hn. destruct n; [lia|]. cbn [length] in Hn. rewrite <- !app_assoc.
    rewrite (unpack_endless_kv_step _ _ _ _ hb (tl ++ bv ++ bs' ++ 3 :: rest)) by (subst bk; auto).
    rewrite UP. destruct (U3 rest f ltac:(lia)) as (_ & A). rewrite A by lia. reflexivity.
Qed.

Lemma uc_list_counted t l bs t' :
  (length l <= 14)%nat -> encs false t l bs t' -> UCS t l bs t' -> UC t (VList l) ((0xD0 + lenN l) :: bs) t'.
Proof.
  intros Hl _ IH ut C. destruct (IH ut C) as (vs & ut' & f0 & Ev & C' & U).
  exists (VList vs), ut', (S f0). split; [cbn [erase]; now rewrite Ev|]. split; [assumption|].
  intros rest f Hf. destruct f as [|f]; [lia|]. cbn [app].
  assert (lenN l <= 14) by (unfold lenN; lia).
  rewrite unpack_f_list by lia. replace ((208 + lenN l) mod 16) with (lenN l) by lia.
  destruct (lenN l =? 15) eqn:E15; [lia|]. unfold lenN at 1. rewrite Nat2N.id.
  destruct (U rest f ltac:(lia)) as (A & _). rewrite A. reflexivity.
Qed.

Lemma uc_list_endless t l bs t' :
  encs false t l bs t' -> UCS t l bs t' -> UC t (VList l) (0xDF :: bs ++ [0x03]) t'.
Proof.
  intros _ IH ut C. destruct (IH ut C) as (vs & ut' & f0 & Ev & C' & U).
  exists (VList vs), ut', (S (Nat.max f0 (S (length l)))). split; [cbn [erase]; now rewrite Ev|]. split; [assumption|].
  intros rest f Hf. destruct f as [|f]; [lia|]. cbn [app].
  rewrite unpack_f_list by lia. change (223 mod 16 =? 15) with true. cbv iota. rewrite <- app_assoc. cbn [app].
  destruct (U rest f ltac:(lia)) as (_ & A). rewrite A by lia. reflexivity.
Qed.

Lemma uc_dict_counted t kv bs t' :
  (length kv <= 14)%nat -> dkeys_ok (map fst kv) -> enckv false t kv bs t' -> UCK t kv bs t' ->
  UC t (VDict kv) ((0xE0 + lenN kv) :: bs) t'.
Proof.
  intros Hl DK _ IH ut C. destruct (IH ut C (dkeys_hashable _ DK)) as (kvs & ut' & f0 & Ev & C' & U).
  exists (VDict kvs), ut', (S f0). split; [cbn [erase]; fold erasep; now rewrite Ev|]. split; [assumption|].
  intros rest f Hf. destruct f as [|f]; [lia|]. cbn [app].
  assert (lenN kv <= 14) by (unfold lenN; lia).
  rewrite unpack_f_dict by lia. replace ((224 + lenN kv) mod 16) with (lenN kv) by lia.
  destruct (lenN kv =? 15) eqn:E15; [lia|]. unfold lenN at 1. rewrite Nat2N.id.
  destruct (U rest f ltac:(lia)) as (A & _). rewrite A. rewrite (mk_dict_decoded kvs kv Ev DK). reflexivity.
Qed.

Lemma uc_dict_endless t kv bs t' :
  dkeys_ok (map fst kv) -> enckv false t kv bs t' -> UCK t kv bs t' -> UC t (VDict kv) (0xEF :: bs ++ [0x03]) t'.
Proof.
  intros DK _ IH ut C. destruct (IH ut C (dkeys_hashable _ DK)) as (kvs & ut' & f0 & Ev & C' & U).
  exists (VDict kvs), ut', (S (Nat.max f0 (S (length kv)))).
  split; [cbn [erase]; fold erasep; now rewrite Ev|]. split; [assumption|].
  intros rest f Hf. destruct f as [|f]; [lia|]. cbn [app].
  rewrite unpack_f_dict by lia. change (239 mod 16 =? 15) with true. cbv iota. rewrite <- app_assoc. cbn [app].
  destruct (U rest f ltac:(lia)) as (_ & A). rewrite A by lia. rewrite (mk_dict_decoded kvs kv Ev DK). reflexivity.
Qed.

Theorem unpack_complete_gen : forall st a bs st', enc false st a bs st' -> UC st a bs st'.
Proof.
  exact (proj1 (enc_mutind false UC UCS UCK uc_leaf uc_ptr uc_list_counted uc_list_endless
                  uc_dict_counted uc_dict_endless ucs_nil ucs_cons uck_nil uck_cons)).
Qed.

(* we read everything the (core of the) documented format allows, back to the value it denotes *)
Theorem unpack_complete a bs rest :
  enc_rel_core a bs -> exists v, unpack (bs ++ rest) = Ok (v, rest) /\ erase v = a.
Proof.
  intros (st' & En). destruct (unpack_complete_gen _ _ _ _ En [] eq_refl) as (v & ut' & f0 & Ev & _ & U).
  exists v. split; [|assumption]. eapply unpack_f_unpack. apply (U rest f0). lia.
Qed.
