(* C04 OPACK - pack is total on the value domain, a bound on the table size in terms of the value,
   norm is a projection, and the places where code and documentation part ways. *)
From Coq Require Import NArith ZArith List Bool Lia ZifyBool.
From PV Require Import Common.Cases Common.Endian C04.OpackModel C04.OpackSpec C04.OpackProofsA C04.OpackProofsB
  C04.OpackProofsC C04.OpackProofsD.
Import ListNotations.
Local Open Scope N_scope.

(* ------------------------------------------------------------------ pack never raises on wf values *)

(* number of non-container objects: at most that many table entries *)
Fixpoint leaves (v : value) : nat :=
  match v with
  | VList l => (fix go (l : list value) : nat := match l with [] => O | x :: t => (leaves x + go t)%nat end) l
  | VDict kv => (fix go (l : list (value * value)) : nat :=
                   match l with [] => O | (k, x) :: t => (leaves k + leaves x + go t)%nat end) kv
  | _ => 1%nat
  end.
Fixpoint lleaves (l : list value) : nat := match l with [] => O | x :: t => (leaves x + lleaves t)%nat end.
Fixpoint kvleaves (l : list (value * value)) : nat :=
  match l with [] => O | (k, x) :: t => (leaves k + leaves x + kvleaves t)%nat end.

Definition PT (v : value) : Prop :=
  forall pt, wf v -> exists bs pt', pack_v v pt = Ok (bs, pt') /\ (length pt' <= length pt + leaves v)%nat.

Lemma pt_leaf v : is_leaf v = true -> PT v.
Proof.
  intros L pt W. rewrite pack_v_leaf by assumption. destruct (leaf_bytes_wf v W L) as (e & ->).
  assert (leaves v = 1%nat) by (destruct v; simpl in *; try reflexivity; discriminate). rewrite H.
  unfold finish_leaf. destruct (length e =? 1)%nat; [exists e, pt; split; [reflexivity|lia]|].
  destruct (index_of e pt) as [i|]; [exists (pack_ptr i e), pt; split; [reflexivity|lia]|].
  exists e, (pt ++ [e]). split; [reflexivity|]. rewrite app_length. simpl. lia.
Qed.

Lemma pt_seq l : Forall PT l -> Forall wf l -> forall pt,
  exists body pt', pack_seq pack_v l pt = Ok (body, pt') /\ (length pt' <= length pt + lleaves l)%nat.
Proof.
  induction l as [|x t IH]; intros HP HW pt.
  - exists [], pt. split; [reflexivity|simpl; lia].
  - apply Forall_cons_iff in HP. destruct HP as [Px Pt]. apply Forall_cons_iff in HW. destruct HW as [Wx Wt].
    destruct (Px pt Wx) as (b1 & pt1 & E1 & L1). destruct (IH Pt Wt pt1) as (b2 & pt2 & E2 & L2).
    exists (b1 ++ b2), pt2. rewrite pack_seq_cons, E1, E2. split; [reflexivity|]. cbn [lleaves]. lia.
Qed.

Lemma pt_seq_kv l : Forall (fun p => PT (fst p) /\ PT (snd p)) l -> Forall (fun p => wf (fst p) /\ wf (snd p)) l ->
  forall pt, exists body pt', pack_seq_kv pack_v l pt = Ok (body, pt') /\ (length pt' <= length pt + kvleaves l)%nat.
Proof.
  induction l as [|[k x] t IH]; intros HP HW pt.
  - exists [], pt. split; [reflexivity|simpl; lia].
  - apply Forall_cons_iff in HP. destruct HP as [[Pk Px] Pt]. apply Forall_cons_iff in HW. destruct HW as [[Wk Wx] Wt].
    cbn [fst snd] in *.
    destruct (Pk pt Wk) as (b1 & pt1 & E1 & L1). destruct (Px pt1 Wx) as (b2 & pt2 & E2 & L2).
    destruct (IH Pt Wt pt2) as (b3 & pt3 & E3 & L3).
    exists (b1 ++ b2 ++ b3), pt3. rewrite pack_seq_kv_cons, E1, E2, E3. split; [reflexivity|]. cbn [kvleaves]. lia.
Qed.

Theorem pack_total_gen : forall v, PT v.
Proof.
  induction v using value_ind'; try (apply pt_leaf; reflexivity).
  - intros pt W. destruct (pt_seq l H (wf_list_inv _ W) pt) as (body & pt' & E & L).
    exists (wrap 0xD0 (lenN l) body), pt'. rewrite pack_v_list, E. split; [reflexivity|exact L].
  - intros pt W. destruct (pt_seq_kv kv H (proj1 (wf_dict_inv _ W)) pt) as (body & pt' & E & L).
    exists (wrap 0xE0 (lenN kv) body), pt'. rewrite pack_v_dict, E. split; [reflexivity|exact L].
Qed.

(* the round trip with its side condition stated on the value *)
Theorem roundtrip_total v rest :
  wf v -> N.of_nat (leaves v) <= 0x10000 ->
  exists bs, pack v = Ok bs /\ unpack (bs ++ rest) = Ok (norm v, rest).
Proof.
  intros W B. destruct (pack_total_gen v [] W) as (bs & pt & P & L). simpl in L.
  exists bs. unfold pack. rewrite P. split; [reflexivity|].
  apply (roundtrip v bs pt rest W P). unfold lenN. lia.
Qed.

Theorem pack_sound_total v :
  wf v -> doc_dom v -> N.of_nat (leaves v) <= 0x10000 ->
  exists bs, pack v = Ok bs /\ enc_rel_core (erase v) bs /\ enc_rel (erase v) bs.
Proof.
  intros W D B. destruct (pack_total_gen v [] W) as (bs & pt & P & L). simpl in L.
  exists bs. unfold pack. rewrite P. split; [reflexivity|].
  apply (pack_sound v bs pt W D P). unfold lenN. lia.
Qed.

(* ------------------------------------------------------------------ norm *)

Lemma int_hint_idem z h : int_hint z (int_hint z h) = int_hint z h.
Proof.
  assert (A0 : (z <? 40)%Z = true -> int_hint z 0 = 0) by (intro E; unfold int_hint; rewrite E; reflexivity).
  assert (A1 : int_hint z 1 = 1).
  { unfold int_hint. change (1 =? 0) with false. change (1 =? 1) with true. now rewrite !andb_false_r, orb_true_r. }
  assert (A2 : int_hint z 2 = 2).
  { unfold int_hint. change (2 =? 0) with false. change (2 =? 1) with false. change (2 =? 2) with true.
    now rewrite !andb_false_r, orb_true_r. }
  assert (A4 : int_hint z 4 = 4).
  { unfold int_hint. change (4 =? 0) with false. change (4 =? 1) with false. change (4 =? 2) with false.
    change (4 =? 4) with true. now rewrite !andb_false_r, orb_true_r. }
  assert (A8 : int_hint z 8 = 8).
  { unfold int_hint. change (8 =? 0) with false. change (8 =? 1) with false. change (8 =? 2) with false.
    change (8 =? 4) with false. now rewrite !andb_false_r. }
  remember (int_hint z h) as h' eqn:Hh. unfold int_hint in Hh.
  destruct ((z <? 40)%Z && (h =? 0)) eqn:E0.
  { subst h'. apply A0. now apply andb_true_iff in E0. }
  destruct (((z <=? 255)%Z && (h =? 0)) || (h =? 1)); [now subst h'|].
  destruct (((z <=? 65535)%Z && (h =? 0)) || (h =? 2)); [now subst h'|].
  destruct (((z <=? 4294967295)%Z && (h =? 0)) || (h =? 4)); now subst h'.
Qed.

(* what comes back is a fixed point: packing it again and unpacking gives the very same object *)
Theorem norm_idem : forall v, norm (norm v) = norm v.
Proof.
  induction v using value_ind'; try reflexivity.
  - cbn [norm]. now rewrite int_hint_idem.
  - cbn [norm]. f_equal. rewrite map_map. apply map_ext_Forall. exact H.
  - cbn [norm]. f_equal. rewrite map_map. apply map_ext_Forall.
    eapply Forall_impl; [|exact H]. intros [k x] [H1 H2]. cbn [fst snd] in *. now rewrite H1, H2.
Qed.

(* ------------------------------------------------------------------ code vs. documentation *)

(* pointer indices above 0xFFFF: _pack writes 0xC3 + 4 bytes, _unpack (and the documentation) read 3:
   the value found is right but one index byte is left in the stream *)
Theorem ptr_index_mismatch : forall f ut e x rest i,
  0xFFFF < i -> i < 2 ^ 24 -> nthN ut i = Some (e, x) ->
  exists stray, unpack_f (S f) (pack_ptr i e ++ rest) ut = Ok (x, stray :: rest, ut).
Proof.
  intros f ut e x rest i H1 H2 Hn. unfold pack_ptr.
  destruct (i <? 33) eqn:C0; [lia|]. destruct (i <=? 255) eqn:C1; [lia|].
  destruct (i <=? 65535) eqn:C2; [lia|]. destruct (i <=? 4294967295) eqn:C3; [|lia].
  cbn [app]. rewrite unpack_f_ptr_len by lia. change (195 - 192) with 3.
  change (le_enc 4 i) with (le_enc 3 i ++ [i / 256 / 256 / 256 mod 256]). rewrite <- app_assoc.
  rewrite (takeN_app_len (le_enc 3 i) _ 3) by reflexivity.
  rewrite (dropN_app_len (le_enc 3 i) _ 3) by reflexivity.
  rewrite le_dec_enc by (simpl; lia). rewrite Hn. eexists. reflexivity.
Qed.

(* 0x6F null terminated string: in the documented table, rejected by the decoder *)
Theorem complete_refuted_0x6F :
  enc_rel (VStr [0x66; 0x6F; 0x6F]) [0x6F; 0x66; 0x6F; 0x6F; 0x00] /\
  unpack [0x6F; 0x66; 0x6F; 0x6F; 0x00] = Raise TypeError.
Proof.
  split; [|reflexivity]. eexists. apply E_leaf.
  - apply (LE_str_z true [0x66; 0x6F; 0x6F]); [reflexivity|reflexivity|].
    simpl. intros [H|[H|[H|[]]]]; discriminate.
  - apply SN_new; [simpl; lia|intros []].
Qed.

(* 0x93 "data 3 byte length": the documented example decodes to a different value *)
Theorem complete_refuted_0x93 :
  enc_rel (VBytes [0xAA; 0xBB]) [0x93; 0x02; 0x00; 0x00; 0xAA; 0xBB] /\
  unpack [0x93; 0x02; 0x00; 0x00; 0xAA; 0xBB] = Ok (VBytes [0xBB], []).
Proof.
  split; [|reflexivity]. eexists. apply E_leaf.
  - apply (LE_data_len true 3 [0xAA; 0xBB]); [lia|now left|reflexivity].
  - apply SN_new; [simpl; lia|intros []].
Qed.

(* ... and _pack leaves the documented format for data of 0x10000 bytes or more *)
Theorem sound_refuted_big_data : forall s e full,
  0xFFFF < lenN s -> lenN s < 2 ^ 32 -> pack_bytes s = Ok e -> ~ leaf_enc full (VBytes s) e.
Proof.
  intros s e full H1 H2 P L. unfold pack_bytes in P.
  destruct (lenN s <=? 32) eqn:E0; [lia|]. destruct (lenN s <=? 255) eqn:E1; [lia|].
  destruct (lenN s <=? 65535) eqn:E2; [lia|]. destruct (lenN s <=? 4294967295) eqn:E3; [|lia].
  inversion P as [He]; clear P. remember (VBytes s) as a eqn:Ha.
  destruct L; try discriminate; inversion Ha; subst s0; clear Ha.
  - assert (Hh : 147 = 112 + lenN s) by congruence. lia.
  - assert (Hh : 147 = 144 + N.of_nat k) by congruence.
    assert (k = 3%nat) by lia. subst k.
    apply (f_equal (@length N)) in He. cbn [length] in He. rewrite app_length, le_enc_length in He.
    cbn [length] in He. lia.
Qed.

(* ------------------------------------------------------------------ pack writes bytes *)

Lemma wfb_cons b l : b < 256 -> wf_bytes l -> wf_bytes (b :: l).
Proof. intros. constructor; assumption. Qed.

Lemma ok_inj {A} (a b : A) : Some (Ok a) = Some (Ok b) -> a = b.
Proof. congruence. Qed.

Lemma leaf_bytes_wfb v e : wf v -> leaf_bytes v = Some (Ok e) -> wf_bytes e.
Proof.
  intros W L. destruct v; simpl in L; try discriminate.
  - apply ok_inj in L. subst e. repeat constructor.
  - apply ok_inj in L. subst e. destruct b; repeat constructor.
  - destruct (pack_int_spec z hint (wf_int_inv _ _ W)) as [(Hh & Hz & Hp)|(k & Hk & Hh & Hz & Hp)];
      rewrite Hp in L; apply ok_inj in L; subst e.
    + apply wfb_cons; [lia|constructor].
    + apply wfb_cons; [clear - Hk; lia|apply le_enc_wf].
  - destruct (wf_float_inv _ W) as (_ & H). apply ok_inj in L. subst e. apply wfb_cons; [lia|assumption].
  - destruct (wf_str_inv _ W) as (Hb & _ & H3).
    destruct (pack_str_spec s H3) as [(Hn & Hp)|(k & Hk & Hlt & Hgt & Hp)]; rewrite Hp in L; apply ok_inj in L; subst e.
    + apply wfb_cons; [lia|assumption].
    + apply wfb_cons; [clear - Hk; lia|]. apply wf_bytes_app. split; [apply le_enc_wf|assumption].
  - destruct (wf_bytes_inv _ W) as (Hb & H2).
    destruct (pack_bytes_spec s H2) as [(Hn & Hp)|(k & Hk & Hlt & Hgt & Hp)]; rewrite Hp in L; apply ok_inj in L; subst e.
    + apply wfb_cons; [lia|assumption].
    + apply wfb_cons; [clear - Hk; lia|]. apply wf_bytes_app. split; [apply le_enc_wf|assumption].
  - destruct (wf_uuid_inv _ W) as (_ & H). apply ok_inj in L. subst e. apply wfb_cons; [lia|assumption].
Qed.

Definition PW (v : value) : Prop := forall pt bs pt', wf v -> pack_v v pt = Ok (bs, pt') -> wf_bytes bs.

Lemma pw_leaf v : is_leaf v = true -> PW v.
Proof.
  intros L pt bs pt' W P. rewrite pack_v_leaf in P by assumption.
  destruct (leaf_bytes_wf v W L) as (e & He). rewrite He in P. inversion P as [P']; clear P.
  pose proof (leaf_bytes_wfb v e W He) as We.
  unfold finish_leaf in P'. destruct (length e =? 1)%nat; [inversion P'; subst; assumption|].
  destruct (index_of e pt) as [i|]; [|inversion P'; subst; assumption].
  inversion P'; subst bs pt'. unfold pack_ptr.
  destruct (i <? 33) eqn:C0; [apply wfb_cons; [lia|constructor]|].
  destruct (i <=? 255); [apply wfb_cons; [lia|apply le_enc_wf]|].
  destruct (i <=? 65535); [apply wfb_cons; [lia|apply le_enc_wf]|].
  destruct (i <=? 4294967295); [apply wfb_cons; [lia|apply le_enc_wf]|].
  destruct (i <=? 18446744073709551615); [apply wfb_cons; [lia|apply le_enc_wf]|]. assumption.
Qed.

Lemma wrap_wfb base n body : base + 15 < 256 -> wf_bytes body -> wf_bytes (wrap base n body).
Proof.
  intros Hb Hbody. unfold wrap. apply wfb_cons; [lia|]. apply wf_bytes_app. split; [assumption|].
  destruct (15 <=? n); repeat constructor.
Qed.

Theorem pack_wf_bytes_gen : forall v, PW v.
Proof.
  induction v using value_ind'; try (apply pw_leaf; reflexivity).
  - intros pt bs pt' W P. rewrite pack_v_list in P.
    destruct (pack_seq pack_v l pt) as [[body pt1]| |] eqn:E; try discriminate. inversion P; subst bs pt'; clear P.
    apply wrap_wfb; [reflexivity|]. pose proof (wf_list_inv _ W) as Wl. clear W.
    revert pt body pt1 E. induction l as [|x t IH]; intros pt body pt1 E.
    + inversion E; subst. constructor.
    + apply Forall_cons_iff in H. destruct H as [Hx Ht]. apply Forall_cons_iff in Wl. destruct Wl as [Wx Wt].
      rewrite pack_seq_cons in E.
      destruct (pack_v x pt) as [[b1 p1]| |] eqn:E1; try discriminate.
      destruct (pack_seq pack_v t p1) as [[b2 p2]| |] eqn:E2; try discriminate. inversion E; subst.
      apply wf_bytes_app. split; [eapply Hx; eassumption|eapply IH; eassumption].
  - intros pt bs pt' W P. rewrite pack_v_dict in P.
    destruct (pack_seq_kv pack_v kv pt) as [[body pt1]| |] eqn:E; try discriminate. inversion P; subst bs pt'; clear P.
    apply wrap_wfb; [reflexivity|]. pose proof (proj1 (wf_dict_inv _ W)) as Wl. clear W.
    revert pt body pt1 E. induction kv as [|[k x] t IH]; intros pt body pt1 E.
    + inversion E; subst. constructor.
    + apply Forall_cons_iff in H. destruct H as [[Hk Hx] Ht]. apply Forall_cons_iff in Wl. destruct Wl as [[Wk Wx] Wt].
      cbn [fst snd] in *. rewrite pack_seq_kv_cons in E.
      destruct (pack_v k pt) as [[b1 p1]| |] eqn:E1; try discriminate.
      destruct (pack_v x p1) as [[b2 p2]| |] eqn:E2; try discriminate.
      destruct (pack_seq_kv pack_v t p2) as [[b3 p3]| |] eqn:E3; try discriminate. inversion E; subst.
      apply wf_bytes_app. split; [eapply Hk; eassumption|]. apply wf_bytes_app.
      split; [eapply Hx; eassumption|eapply IH; eassumption].
Qed.

Theorem pack_wf_bytes v bs : wf v -> pack v = Ok bs -> wf_bytes bs.
Proof.
  intros W P. unfold pack in P. destruct (pack_v v []) as [[b pt]| |] eqn:E; try discriminate.
  inversion P; subst. eapply pack_wf_bytes_gen; eassumption.
Qed.
