From Coq Require Import Arith NArith ZArith List Bool Lia.
From PV Require Import Common.Endian C04.CredModel.
Import ListNotations.
Local Open Scope N_scope.
Ltac Zify.zify_post_hook ::= Z.to_euclidean_division_equations.

Lemma unhex_hexdigit d : d < 16 -> unhex1 (hexdigit d) = Some d.
Proof.
  intro H. unfold hexdigit, unhex1. destruct (d <? 10) eqn:E.
  - apply N.ltb_lt in E.
    replace ((48 <=? 48 + d) && (48 + d <=? 57)) with true
      by (symmetry; apply andb_true_iff; split; apply N.leb_le; lia).
    f_equal. lia.
  - apply N.ltb_ge in E.
    replace ((48 <=? 87 + d) && (87 + d <=? 57)) with false
      by (symmetry; apply andb_false_iff; right; apply N.leb_gt; lia).
    replace ((97 <=? 87 + d) && (87 + d <=? 102)) with true
      by (symmetry; apply andb_true_iff; split; apply N.leb_le; lia).
    f_equal. lia.
Qed.

Lemma hexdigit_not_colon d : d < 16 -> hexdigit d <> colon.
Proof. intro H. unfold hexdigit, colon. destruct (d <? 10) eqn:E; [apply N.ltb_lt in E|apply N.ltb_ge in E]; lia. Qed.

Theorem unhexlify_hexlify bs : wf_bytes bs -> unhexlify (hexlify bs) = Some bs.
Proof.
  induction bs as [|b t IH]; intro H; [reflexivity|].
  inversion H as [|? ? Hb Ht]; subst.
  cbn [hexlify flat_map app unhexlify]. fold (hexlify t).
  rewrite !unhex_hexdigit, IH by (try assumption; try (apply N.mod_lt; discriminate);
    try (apply N.div_lt_upper_bound; [discriminate|lia])).
  f_equal. f_equal. pose proof (N.div_mod' b 16). lia.
Qed.

Lemma hexlify_no_colon bs : wf_bytes bs -> ~ In colon (hexlify bs).
Proof.
  induction bs as [|b t IH]; intro H; [simpl; tauto|].
  inversion H as [|? ? Hb Ht]; subst.
  cbn [hexlify flat_map app]. fold (hexlify t). intros [E|[E|E]].
  - revert E. apply hexdigit_not_colon. apply N.div_lt_upper_bound; [discriminate|lia].
  - revert E. apply hexdigit_not_colon. apply N.mod_lt. discriminate.
  - now apply IH.
Qed.

Lemma split_no_colon : forall s cur, ~ In colon s -> split_colon s cur = [rev cur ++ s].
Proof.
  induction s as [|c t IH]; intros cur H; cbn [split_colon].
  - now rewrite app_nil_r.
  - destruct (c =? colon) eqn:E.
    + apply N.eqb_eq in E. exfalso. apply H. now left.
    + rewrite IH by (intro Hin; apply H; now right). cbn [rev]. now rewrite <- app_assoc.
Qed.

Lemma split_field : forall s cur rest, ~ In colon s ->
  split_colon (s ++ colon :: rest) cur = (rev cur ++ s) :: split_colon rest [].
Proof.
  induction s as [|c t IH]; intros cur rest H; cbn [app split_colon].
  - rewrite N.eqb_refl. now rewrite app_nil_r.
  - destruct (c =? colon) eqn:E.
    + apply N.eqb_eq in E. exfalso. apply H. now left.
    + rewrite IH by (intro Hin; apply H; now right). cbn [rev]. now rewrite <- app_assoc.
Qed.

Definition wf_creds (c : creds) : Prop :=
  wf_bytes (ltpk c) /\ wf_bytes (ltsk c) /\ wf_bytes (atv_id c) /\ wf_bytes (client_id c).

(* every credentials object survives str() / parse_credentials(), empty fields included *)
Theorem credentials_roundtrip c : wf_creds c -> valid_shape c = true ->
  parse_credentials (cred_str c) = POk c.
Proof.
  intros (H1 & H2 & H3 & H4) Hs. unfold parse_credentials, cred_str, join4.
  rewrite split_field by now apply hexlify_no_colon.
  rewrite split_field by now apply hexlify_no_colon.
  rewrite split_field by now apply hexlify_no_colon.
  rewrite split_no_colon by now apply hexlify_no_colon.
  cbn [rev app]. rewrite !unhexlify_hexlify by assumption. unfold mk.
  replace {| ltpk := ltpk c; ltsk := ltsk c; atv_id := atv_id c; client_id := client_id c |} with c by (destruct c; reflexivity).
  now rewrite Hs.
Qed.

(* the legacy two-field form "client_id:seed" *)
Theorem legacy_parse cid sk : wf_bytes cid -> wf_bytes sk -> cid <> [] -> sk <> [] ->
  parse_credentials (hexlify cid ++ colon :: hexlify sk) =
  POk {| ltpk := []; ltsk := sk; atv_id := []; client_id := cid |}.
Proof.
  intros H1 H2 N1 N2. unfold parse_credentials.
  rewrite split_field by now apply hexlify_no_colon.
  rewrite split_no_colon by now apply hexlify_no_colon.
  cbn [rev app]. rewrite !unhexlify_hexlify by assumption.
  destruct cid; [congruence|]. destruct sk; [congruence|]. reflexivity.
Qed.
