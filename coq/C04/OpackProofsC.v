(* C04/C05 OPACK - the decoder always terminates: every call consumes at least one byte, so
   fuel = length data + 1 is never exhausted (for ANY byte string and object list); a result
   obtained with some fuel is the result with any larger fuel. *)
From Coq Require Import NArith ZArith List Bool Lia ZifyBool.
From PV Require Import Common.Cases Common.Endian C04.OpackModel C04.OpackProofsA.
Import ListNotations.
Local Open Scope N_scope.

Lemma dropN_len_le {A} (l : list A) n : (length (dropN n l) <= length l)%nat.
Proof. rewrite dropN_skipn, skipn_length. lia. Qed.

(* the non-recursive branches never hand back more than they were given *)
Lemma unpack_leaf_progress b rest v rem add :
  unpack_leaf b rest = Some (Ok (v, rem, add)) -> (length rem <= length rest)%nat.
Proof.
  unfold unpack_leaf. intro H.
  repeat match type of H with
         | (if ?c then _ else _) = _ => destruct c
         | Some (if ?c then _ else _) = _ => destruct c
         end;
    try discriminate; inversion H; subst; clear H;
    repeat match goal with |- context [dropN ?n ?l] =>
             lazymatch goal with
             | _ : (length (dropN n l) <= length l)%nat |- _ => fail
             | _ => pose proof (dropN_len_le l n)
             end
           end; lia.
Qed.

Definition prog (rec : rec_t) : Prop :=
  forall d t v r t', rec d t = Ok (v, r, t') -> (length r < length d)%nat.
Definition nofuel (rec : rec_t) (bound : nat) : Prop :=
  forall d t, (length d < bound)%nat -> rec d t <> OutOfFuel.

Lemma unpack_n_progress rec : prog rec -> forall n ptr t vs p t',
  unpack_n rec n ptr t = Ok (vs, p, t') -> (length p <= length ptr)%nat.
Proof.
  intros HP. induction n as [|n IH]; intros ptr t vs p t' H; simpl in H.
  - inversion H; subst. lia.
  - destruct (rec ptr t) as [[[v p1] t1]| |] eqn:E; try discriminate.
    destruct (unpack_n rec n p1 t1) as [[[vs' p2] t2]| |] eqn:E2; try discriminate.
    inversion H; subst. apply HP in E. apply IH in E2. lia.
Qed.

Lemma unpack_endless_progress rec : prog rec -> forall n ptr t vs p t',
  unpack_endless rec n ptr t = Ok (vs, p, t') -> (length p < length ptr)%nat.
Proof.
  intros HP. induction n as [|n IH]; intros ptr t vs p t' H; simpl in H; [discriminate|].
  destruct ptr as [|b r]; [discriminate|].
  destruct (b =? 3).
  - inversion H; subst. simpl. lia.
  - destruct (rec (b :: r) t) as [[[v p1] t1]| |] eqn:E; try discriminate.
    destruct (unpack_endless rec n p1 t1) as [[[vs' p2] t2]| |] eqn:E2; try discriminate.
    inversion H; subst. apply HP in E. apply IH in E2. lia.
Qed.

Lemma unpack_pair_progress rec : prog rec -> forall ptr t k v p t',
  unpack_pair rec ptr t = Ok (k, v, p, t') -> (length p < length ptr)%nat.
Proof.
  intros HP ptr t k v p t' H. unfold unpack_pair in H.
  destruct (rec ptr t) as [[[k1 p1] t1]| |] eqn:E; try discriminate.
  destruct (rec p1 t1) as [[[v2 p2] t2]| |] eqn:E2; try discriminate.
  destruct (hashable k1); try discriminate. inversion H; subst.
  apply HP in E. apply HP in E2. lia.
Qed.

Lemma unpack_n_kv_progress rec : prog rec -> forall n ptr t vs p t',
  unpack_n_kv rec n ptr t = Ok (vs, p, t') -> (length p <= length ptr)%nat.
Proof.
  intros HP. induction n as [|n IH]; intros ptr t vs p t' H; simpl in H.
  - inversion H; subst. lia.
  - destruct (unpack_pair rec ptr t) as [[[[k v] p1] t1]| |] eqn:E; try discriminate.
    destruct (unpack_n_kv rec n p1 t1) as [[[vs' p2] t2]| |] eqn:E2; try discriminate.
    inversion H; subst. apply (unpack_pair_progress rec HP) in E. apply IH in E2. lia.
Qed.

Lemma unpack_endless_kv_progress rec : prog rec -> forall n ptr t vs p t',
  unpack_endless_kv rec n ptr t = Ok (vs, p, t') -> (length p < length ptr)%nat.
Proof.
  intros HP. induction n as [|n IH]; intros ptr t vs p t' H; simpl in H; [discriminate|].
  destruct ptr as [|b r]; [discriminate|].
  destruct (b =? 3).
  - inversion H; subst. simpl. lia.
  - destruct (unpack_pair rec (b :: r) t) as [[[[k v] p1] t1]| |] eqn:E; try discriminate.
    destruct (unpack_endless_kv rec n p1 t1) as [[[vs' p2] t2]| |] eqn:E2; try discriminate.
    inversion H; subst. apply (unpack_pair_progress rec HP) in E. apply IH in E2. lia.
Qed.

(* every successful call consumes at least one byte *)
Theorem unpack_f_progress : forall f, prog (unpack_f f).
Proof.
  induction f as [|f IH]; intros d t v r t' H; [discriminate|].
  cbn [unpack_f] in H. destruct d as [|b rest]; [discriminate|].
  destruct (unpack_leaf b rest) as [[[[v1 rem] add]| |]|] eqn:EL; try discriminate.
  - inversion H; subst. apply unpack_leaf_progress in EL. simpl. lia.
  - destruct (b / 16 =? 13).
    { destruct (b mod 16 =? 15).
      - destruct (unpack_endless (unpack_f f) f rest t) as [[[vs p] t1]| |] eqn:E; try discriminate.
        inversion H; subst. apply (unpack_endless_progress _ IH) in E. simpl. lia.
      - destruct (unpack_n (unpack_f f) (N.to_nat (b mod 16)) rest t) as [[[vs p] t1]| |] eqn:E; try discriminate.
        inversion H; subst. apply (unpack_n_progress _ IH) in E. simpl. lia. }
    destruct (224 <=? b).
    { destruct (b mod 16 =? 15).
      - destruct (unpack_endless_kv (unpack_f f) f rest t) as [[[vs p] t1]| |] eqn:E; try discriminate.
        inversion H; subst. apply (unpack_endless_kv_progress _ IH) in E. simpl. lia.
      - destruct (unpack_n_kv (unpack_f f) (N.to_nat (b mod 16)) rest t) as [[[vs p] t1]| |] eqn:E; try discriminate.
        inversion H; subst. apply (unpack_n_kv_progress _ IH) in E. simpl. lia. }
    destruct ((160 <=? b) && (b <=? 192)).
    { destruct (nthN t (b - 160)) as [[e x]|]; try discriminate. inversion H; subst. simpl. lia. }
    destruct ((193 <=? b) && (b <=? 196)); try discriminate.
    destruct (nthN t (le_dec (takeN (b - 192) rest))) as [[e x]|]; try discriminate. inversion H; subst.
    pose proof (dropN_len_le rest (b - 192)). simpl. lia.
Qed.

(* ------------------------------------------------------------------ fuel is never exhausted *)

Lemma unpack_leaf_no_oof b rest : unpack_leaf b rest <> Some OutOfFuel.
Proof.
  unfold unpack_leaf.
  repeat match goal with
         | |- (if ?c then _ else _) <> _ => destruct c
         | |- Some (if ?c then _ else _) <> _ => destruct c
         end; discriminate.
Qed.

Lemma unpack_n_nofuel rec bound : prog rec -> nofuel rec bound -> forall n ptr t,
  (length ptr < bound)%nat -> unpack_n rec n ptr t <> OutOfFuel.
Proof.
  intros HP HN. induction n as [|n IH]; intros ptr t Hl; simpl; [discriminate|].
  destruct (rec ptr t) as [[[v p1] t1]| |] eqn:E; try discriminate.
  - apply HP in E. specialize (IH p1 t1 ltac:(lia)).
    destruct (unpack_n rec n p1 t1) as [[[vs' p2] t2]| |]; try discriminate. contradiction.
  - now apply HN in E.
Qed.

Lemma unpack_endless_nofuel rec bound : prog rec -> nofuel rec bound -> forall n ptr t,
  (length ptr < bound)%nat -> (length ptr < n)%nat -> unpack_endless rec n ptr t <> OutOfFuel.
Proof.
  intros HP HN. induction n as [|n IH]; intros ptr t Hl Hn; [lia|]. simpl.
  destruct ptr as [|b r]; [discriminate|]. destruct (b =? 3); [discriminate|].
  destruct (rec (b :: r) t) as [[[v p1] t1]| |] eqn:E; try discriminate.
  - apply HP in E. specialize (IH p1 t1 ltac:(lia) ltac:(lia)).
    destruct (unpack_endless rec n p1 t1) as [[[vs' p2] t2]| |]; try discriminate. contradiction.
  - now apply HN in E.
Qed.

Lemma unpack_pair_nofuel rec bound : prog rec -> nofuel rec bound -> forall ptr t,
  (length ptr < bound)%nat -> unpack_pair rec ptr t <> OutOfFuel.
Proof.
  intros HP HN ptr t Hl. unfold unpack_pair.
  destruct (rec ptr t) as [[[k1 p1] t1]| |] eqn:E; try discriminate.
  - apply HP in E. destruct (rec p1 t1) as [[[v2 p2] t2]| |] eqn:E2; try discriminate.
    + destruct (hashable k1); discriminate.
    + apply HN in E2; [contradiction|lia].
  - now apply HN in E.
Qed.

Lemma unpack_n_kv_nofuel rec bound : prog rec -> nofuel rec bound -> forall n ptr t,
  (length ptr < bound)%nat -> unpack_n_kv rec n ptr t <> OutOfFuel.
Proof.
  intros HP HN. induction n as [|n IH]; intros ptr t Hl; simpl; [discriminate|].
  pose proof (unpack_pair_nofuel rec bound HP HN ptr t Hl) as NP.
  destruct (unpack_pair rec ptr t) as [[[[k v] p1] t1]| |] eqn:E; try discriminate; [|contradiction].
  apply (unpack_pair_progress rec HP) in E. specialize (IH p1 t1 ltac:(lia)).
  destruct (unpack_n_kv rec n p1 t1) as [[[vs' p2] t2]| |]; try discriminate. contradiction.
Qed.

Lemma unpack_endless_kv_nofuel rec bound : prog rec -> nofuel rec bound -> forall n ptr t,
  (length ptr < bound)%nat -> (length ptr < n)%nat -> unpack_endless_kv rec n ptr t <> OutOfFuel.
Proof.
  intros HP HN. induction n as [|n IH]; intros ptr t Hl Hn; [lia|]. simpl.
  destruct ptr as [|b r]; [discriminate|]. destruct (b =? 3); [discriminate|].
  pose proof (unpack_pair_nofuel rec bound HP HN (b :: r) t Hl) as NP.
  destruct (unpack_pair rec (b :: r) t) as [[[[k v] p1] t1]| |] eqn:E; try discriminate; [|contradiction].
  apply (unpack_pair_progress rec HP) in E. specialize (IH p1 t1 ltac:(lia) ltac:(lia)).
  destruct (unpack_endless_kv rec n p1 t1) as [[[vs' p2] t2]| |]; try discriminate. contradiction.
Qed.

Theorem unpack_f_nofuel : forall f, nofuel (unpack_f f) f.
Proof.
  induction f as [|f IH]; intros d t Hl; [lia|].
  cbn [unpack_f]. destruct d as [|b rest]; [discriminate|]. simpl in Hl.
  pose proof (unpack_leaf_no_oof b rest) as NL.
  destruct (unpack_leaf b rest) as [[[[v1 rem] add]| |]|] eqn:EL; try discriminate; [congruence|].
  pose proof (unpack_f_progress f) as HP.
  destruct (b / 16 =? 13).
  { destruct (b mod 16 =? 15).
    - pose proof (unpack_endless_nofuel _ f HP IH f rest t ltac:(lia) ltac:(lia)).
      destruct (unpack_endless (unpack_f f) f rest t) as [[[vs p] t1]| |]; try discriminate. contradiction.
    - pose proof (unpack_n_nofuel _ f HP IH (N.to_nat (b mod 16)) rest t ltac:(lia)).
      destruct (unpack_n (unpack_f f) (N.to_nat (b mod 16)) rest t) as [[[vs p] t1]| |]; try discriminate. contradiction. }
  destruct (224 <=? b).
  { destruct (b mod 16 =? 15).
    - pose proof (unpack_endless_kv_nofuel _ f HP IH f rest t ltac:(lia) ltac:(lia)).
      destruct (unpack_endless_kv (unpack_f f) f rest t) as [[[vs p] t1]| |]; try discriminate. contradiction.
    - pose proof (unpack_n_kv_nofuel _ f HP IH (N.to_nat (b mod 16)) rest t ltac:(lia)).
      destruct (unpack_n_kv (unpack_f f) (N.to_nat (b mod 16)) rest t) as [[[vs p] t1]| |]; try discriminate. contradiction. }
  destruct ((160 <=? b) && (b <=? 192)).
  { destruct (nthN t (b - 160)) as [[e x]|]; discriminate. }
  destruct ((193 <=? b) && (b <=? 196)); try discriminate.
  destruct (nthN t (le_dec (takeN (b - 192) rest))) as [[e x]|]; discriminate.
Qed.

(* the C05 statement for OPACK: fuel length+1 suffices for every input and every object list *)
Theorem opack_fuel_enough_gen : forall data t, unpack_f (S (length data)) data t <> OutOfFuel.
Proof. intros data t. apply unpack_f_nofuel. lia. Qed.

Theorem opack_fuel_enough : forall data, unpack data <> OutOfFuel.
Proof.
  intro data. unfold unpack. pose proof (opack_fuel_enough_gen data []) as H.
  destruct (unpack_f (S (length data)) data []) as [[[v r] t]| |]; try discriminate. contradiction.
Qed.

(* ------------------------------------------------------------------ more fuel, same result *)

Definition ext (rec rec' : rec_t) : Prop := forall d t r, rec d t = r -> r <> OutOfFuel -> rec' d t = r.

Lemma unpack_n_ext rec rec' : ext rec rec' -> forall n ptr t r,
  unpack_n rec n ptr t = r -> r <> OutOfFuel -> unpack_n rec' n ptr t = r.
Proof.
  intros HE. induction n as [|n IH]; intros ptr t r H NR; simpl in *; [assumption|].
  destruct (rec ptr t) as [[[v p1] t1]| |] eqn:E.
  - rewrite (HE _ _ _ E) by discriminate.
    destruct (unpack_n rec n p1 t1) as [[[vs' p2] t2]| |] eqn:E2.
    + rewrite (IH _ _ _ E2) by discriminate. assumption.
    + rewrite (IH _ _ _ E2) by discriminate. assumption.
    + congruence.
  - rewrite (HE _ _ _ E) by discriminate. assumption.
  - congruence.
Qed.

Lemma unpack_endless_ext rec rec' : ext rec rec' -> forall n n' ptr t r, (n <= n')%nat ->
  unpack_endless rec n ptr t = r -> r <> OutOfFuel -> unpack_endless rec' n' ptr t = r.
Proof.
  intros HE. induction n as [|n IH]; intros n' ptr t r Hn H NR; simpl in H; [congruence|].
  destruct n' as [|n']; [lia|]. simpl.
  destruct ptr as [|b rr]; [assumption|]. destruct (b =? 3); [assumption|].
  destruct (rec (b :: rr) t) as [[[v p1] t1]| |] eqn:E.
  - rewrite (HE _ _ _ E) by discriminate.
    destruct (unpack_endless rec n p1 t1) as [[[vs' p2] t2]| |] eqn:E2.
    + rewrite (IH n' _ _ _ ltac:(lia) E2) by discriminate. assumption.
    + rewrite (IH n' _ _ _ ltac:(lia) E2) by discriminate. assumption.
    + congruence.
  - rewrite (HE _ _ _ E) by discriminate. assumption.
  - congruence.
Qed.

Lemma unpack_pair_ext rec rec' : ext rec rec' -> forall ptr t r,
  unpack_pair rec ptr t = r -> r <> OutOfFuel -> unpack_pair rec' ptr t = r.
Proof.
  intros HE ptr t r H NR. unfold unpack_pair in *.
  destruct (rec ptr t) as [[[k1 p1] t1]| |] eqn:E.
  - rewrite (HE _ _ _ E) by discriminate.
    destruct (rec p1 t1) as [[[v2 p2] t2]| |] eqn:E2.
    + rewrite (HE _ _ _ E2) by discriminate. assumption.
    + rewrite (HE _ _ _ E2) by discriminate. assumption.
    + congruence.
  - rewrite (HE _ _ _ E) by discriminate. assumption.
  - congruence.
Qed.

Lemma unpack_n_kv_ext rec rec' : ext rec rec' -> forall n ptr t r,
  unpack_n_kv rec n ptr t = r -> r <> OutOfFuel -> unpack_n_kv rec' n ptr t = r.
Proof.
  intros HE. induction n as [|n IH]; intros ptr t r H NR; simpl in *; [assumption|].
  destruct (unpack_pair rec ptr t) as [[[[k v] p1] t1]| |] eqn:E.
  - rewrite (unpack_pair_ext _ _ HE _ _ _ E) by discriminate.
    destruct (unpack_n_kv rec n p1 t1) as [[[vs' p2] t2]| |] eqn:E2.
    + rewrite (IH _ _ _ E2) by discriminate. assumption.
    + rewrite (IH _ _ _ E2) by discriminate. assumption.
    + congruence.
  - rewrite (unpack_pair_ext _ _ HE _ _ _ E) by discriminate. assumption.
  - congruence.
Qed.

Lemma unpack_endless_kv_ext rec rec' : ext rec rec' -> forall n n' ptr t r, (n <= n')%nat ->
  unpack_endless_kv rec n ptr t = r -> r <> OutOfFuel -> unpack_endless_kv rec' n' ptr t = r.
Proof.
  intros HE. induction n as [|n IH]; intros n' ptr t r Hn H NR; simpl in H; [congruence|].
  destruct n' as [|n']; [lia|]. simpl.
  destruct ptr as [|b rr]; [assumption|]. destruct (b =? 3); [assumption|].
  destruct (unpack_pair rec (b :: rr) t) as [[[[k v] p1] t1]| |] eqn:E.
  - rewrite (unpack_pair_ext _ _ HE _ _ _ E) by discriminate.
    destruct (unpack_endless_kv rec n p1 t1) as [[[vs' p2] t2]| |] eqn:E2.
    + rewrite (IH n' _ _ _ ltac:(lia) E2) by discriminate. assumption.
    + rewrite (IH n' _ _ _ ltac:(lia) E2) by discriminate. assumption.
    + congruence.
  - rewrite (unpack_pair_ext _ _ HE _ _ _ E) by discriminate. assumption.
  - congruence.
Qed.

Theorem unpack_f_mono : forall f f', (f <= f')%nat -> ext (unpack_f f) (unpack_f f').
Proof.
  induction f as [|f IH]; intros f' Hf d t r H NR; [simpl in H; congruence|].
  destruct f' as [|f']; [lia|]. specialize (IH f' ltac:(lia)).
  cbn [unpack_f] in *. destruct d as [|b rest]; [assumption|].
  destruct (unpack_leaf b rest) as [[[[v1 rem] add]| |]|]; try assumption.
  destruct (b / 16 =? 13).
  { destruct (b mod 16 =? 15).
    - destruct (unpack_endless (unpack_f f) f rest t) as [[[vs p] t1]| |] eqn:E.
      + rewrite (unpack_endless_ext _ _ IH f f' _ _ _ ltac:(lia) E) by discriminate. assumption.
      + rewrite (unpack_endless_ext _ _ IH f f' _ _ _ ltac:(lia) E) by discriminate. assumption.
      + congruence.
    - destruct (unpack_n (unpack_f f) (N.to_nat (b mod 16)) rest t) as [[[vs p] t1]| |] eqn:E.
      + rewrite (unpack_n_ext _ _ IH _ _ _ _ E) by discriminate. assumption.
      + rewrite (unpack_n_ext _ _ IH _ _ _ _ E) by discriminate. assumption.
      + congruence. }
  destruct (224 <=? b); [|assumption].
  destruct (b mod 16 =? 15).
  - destruct (unpack_endless_kv (unpack_f f) f rest t) as [[[vs p] t1]| |] eqn:E.
    + rewrite (unpack_endless_kv_ext _ _ IH f f' _ _ _ ltac:(lia) E) by discriminate. assumption.
    + rewrite (unpack_endless_kv_ext _ _ IH f f' _ _ _ ltac:(lia) E) by discriminate. assumption.
    + congruence.
  - destruct (unpack_n_kv (unpack_f f) (N.to_nat (b mod 16)) rest t) as [[[vs p] t1]| |] eqn:E.
    + rewrite (unpack_n_kv_ext _ _ IH _ _ _ _ E) by discriminate. assumption.
    + rewrite (unpack_n_kv_ext _ _ IH _ _ _ _ E) by discriminate. assumption.
    + congruence.
Qed.

(* a result found with some fuel is the result of unpack *)
Corollary unpack_f_unpack f data v rest t :
  unpack_f f data [] = Ok (v, rest, t) -> unpack data = Ok (v, rest).
Proof.
  intro H. unfold unpack.
  destruct (Nat.le_ge_cases f (S (length data))) as [L|L].
  - rewrite (unpack_f_mono _ _ L _ _ _ H) by discriminate. reflexivity.
  - pose proof (opack_fuel_enough_gen data []) as NF.
    destruct (unpack_f (S (length data)) data []) as [[[v' r'] t']| |] eqn:E; [| |contradiction].
    + rewrite (unpack_f_mono _ _ L _ _ _ E) in H by discriminate. now inversion H.
    + rewrite (unpack_f_mono _ _ L _ _ _ E) in H by discriminate. discriminate.
Qed.
