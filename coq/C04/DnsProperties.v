(* C04 / C05 (DNS part) - property theorems only.  Each is closed by lemmas of DnsProofs*.v;
   Print Assumptions follows each.

   Reading guide (all definitions are in DnsSpec.v = the RFCs, and DnsModel.v = the code):
     label_ok l    := 1 <= length l <= 63                                   (RFC 1035 2.3.4)
     lab_dec_ok l  := is_xn l = false /\ utf8_valid l = true                 (decodable by the model:
                      valid UTF-8, does not start with "xn--"; IDNA and NFC are outside the model)
     label_wf l    := label_ok l /\ lab_dec_ok l
     name_at buf p ls e  := RFC 1035 4.1.4: the (possibly compressed) name at offset p of buf is ls and
                      its representation in place ends at e
     msg_at buf m  := RFC 1035 4.1: buf starts with a representation of the message m
     wf_str s      := the dotted str s is carried faithfully: the labels qname_encode derives from it
                      (DNS-SD instance rule included) are label_wf and join back to s *)
From Coq Require Import NArith List Bool Arith.
From PV Require Import Common.Cases Common.Endian C04.DnsSpec C04.DnsModel C04.DnsProofs C04.DnsProofsMsg C04.DnsProofsPack C04.DnsProofsBound.
Import ListNotations.
Local Open Scope N_scope.

(* ---- what pyatv sends is in the format --------------------------------------------------- *)

(* qname_encode of 1..63-byte labels is exactly the RFC 1035 3.1 encoding.  (Longer labels are
   truncated by the code - modelled in DnsModel.truncate63, excluded here by label_ok.) *)
Theorem C04_dns_qname_encode_sound : forall labels,
  Forall label_ok labels -> qname_encode labels = enc_name labels.
Proof. exact qname_encode_sound_l. Qed.
Print Assumptions C04_dns_qname_encode_sound.

(* ---- the decoder reads everything the format allows -------------------------------------- *)

(* parse_domain_name is complete for RFC 1035 4.1.4: any representation of a name - plain,
   a pointer, labels followed by a pointer, pointers to pointers - decodes to that name, and the
   stream is left right after the zero octet or right after the FIRST pointer. *)
Theorem C04_dns_parse_name_complete : forall buf p labels e,
  name_at buf p labels e -> Forall lab_dec_ok labels ->
  parse_name buf p = DOk (labels, e).
Proof. exact parse_name_complete_l. Qed.
Print Assumptions C04_dns_parse_name_complete.

(* a name stored at offset q and referenced by a pointer at p decodes to the same labels, and
   the stream position ends right after the pointer *)
Theorem C04_dns_pointer_decodes_target : forall buf p q hi lo labels e,
  nth_error buf p = Some hi -> nth_error buf (S p) = Some lo -> 192 <= hi < 256 -> lo < 256 ->
  q = N.to_nat ((hi - 192) * 256 + lo) ->
  name_at buf q labels e -> Forall lab_dec_ok labels ->
  parse_name buf q = DOk (labels, e) /\ parse_name buf p = DOk (labels, S (S p)).
Proof.
  intros buf p q hi lo labels e H1 H2 H3 H4 -> D Hok. split.
  - now apply parse_name_complete_l.
  - apply parse_name_complete_l; [|assumption]. eapply NA_ptr; eauto.
Qed.
Print Assumptions C04_dns_pointer_decodes_target.

(* ---- round trips --------------------------------------------------------------------------- *)

(* name round trip, anywhere in a buffer; offset 0 is the instance pre = [] *)
Theorem C04_dns_name_roundtrip : forall labels pre rest,
  Forall label_wf labels ->
  parse_name (pre ++ qname_encode labels ++ rest) (length pre)
  = DOk (labels, (length pre + length (qname_encode labels))%nat).
Proof. intros. now apply name_roundtrip_l. Qed.
Print Assumptions C04_dns_name_roundtrip.

Corollary C04_dns_name_roundtrip_0 : forall labels rest,
  Forall label_wf labels ->
  parse_name (qname_encode labels ++ rest) 0 = DOk (labels, length (qname_encode labels)).
Proof. intros labels rest H. exact (name_roundtrip_l labels [] rest H). Qed.
Print Assumptions C04_dns_name_roundtrip_0.

(* DnsMessage.unpack is complete for RFC 1035 4.1 messages: header, questions and resource
   records with compressed names wherever a name may stand, RDATA of A / PTR / TXT (RFC 6763
   attributes with distinct keys) / SRV / any other type (opaque); trailing octets ignored.
   m_msg renders the value the way unpack returns it (names joined with "."). *)
Theorem C04_dns_unpack_complete : forall buf m,
  msg_at buf m -> names_ok m -> unpack_msg buf = DOk (m_msg m).
Proof. exact unpack_complete. Qed.
Print Assumptions C04_dns_unpack_complete.

(* DnsMessage.pack writes the uncompressed RFC 1035 encoding of the message ... *)
Theorem C04_dns_pack_sound : forall m,
  wf_msg m -> pack_msg m = DOk (enc_msg (s_msg m)) /\ forall rest, msg_at (enc_msg (s_msg m) ++ rest) (s_msg m).
Proof.
  intros m W. split; [now apply pack_msg_sound|]. intro rest. apply enc_msg_at.
  destruct m as [id fl qs an ns ar].
  destruct W as (Hid & Hfl & Hq & Ha & Hn & Hr & Wq & Wa & Wn & Wr).
  cbn [s_msg sm_ok]. rewrite !cnt_map. repeat (split; [assumption|]). repeat split.
  - apply (Forall_map_prop s_q wf_q); [|assumption]. intros x Hx. now apply wf_q_sq.
  - apply (Forall_map_prop s_r wf_answer); [|assumption]. intros x Hx. now apply wf_answer_sr.
  - apply (Forall_map_prop s_r wf_raw); [|assumption]. intros x Hx. now apply wf_raw_sr.
  - apply (Forall_map_prop s_r wf_raw); [|assumption]. intros x Hx. now apply wf_raw_sr.
Qed.
Print Assumptions C04_dns_pack_sound.

(* ... and unpack reads it back: the message round trip for everything pack writes symmetrically
   (header, questions, PTR answers, authority/additional records of types without a structured
   parser).  _partial: answers of other types are written by pack as a name and read back by type,
   records of type A/PTR/TXT/SRV in the authority/additional sections are written raw and read
   back structured - pack and unpack are not inverse there (by construction of the code). *)
Theorem C04_dns_message_roundtrip_partial : forall m rest,
  wf_msg m -> exists bs, pack_msg m = DOk bs /\ unpack_msg (bs ++ rest) = DOk m.
Proof. exact message_roundtrip. Qed.
Print Assumptions C04_dns_message_roundtrip_partial.

(* TXT: any RFC 6763 encoding (key=value or bare key, distinct keys) of an attribute list is read
   back as the list with lower-cased keys *)
Theorem C04_dns_txt_roundtrip : forall ents rest,
  txt_ok ents ->
  parse_txt (enc_txt ents ++ rest) 0 (length (enc_txt ents)) = DOk (txt_value ents, length (enc_txt ents)).
Proof.
  intros ents rest H.
  apply (parse_txt_complete (enc_txt ents ++ rest) 0 ents H). apply (block_at_mid [] (enc_txt ents) rest).
Qed.
Print Assumptions C04_dns_txt_roundtrip.

(* SRV (RFC 2782), target possibly compressed *)
Theorem C04_dns_srv_complete : forall buf p prio w port labels e,
  prio < 65536 -> w < 65536 -> port < 65536 ->
  block_at buf p (be_enc 2 prio ++ be_enc 2 w ++ be_enc 2 port) ->
  name_at buf (p + 6) labels e -> Forall lab_dec_ok labels ->
  parse_srv buf p = DOk (RSrv prio w port (join_dot labels), e).
Proof.
  intros buf p prio w port ls e H1 H2 H3 Hb Hn Hok.
  pose proof (parse_rdata_complete buf 33 p (e - p) (SSrv prio w port ls)
                (RD_SRV buf p prio w port ls e H1 H2 H3 Hb Hn) Hok) as H.
  unfold parse_rdata in H. cbn [N.eqb Pos.eqb] in H. rewrite H. cbn [m_rd].
  pose proof (name_at_end_gt _ _ _ _ Hn). f_equal. f_equal. Lia.lia.
Qed.
Print Assumptions C04_dns_srv_complete.

(* a str name without dots inside labels and without a service pattern is carried faithfully *)
Theorem C04_dns_plain_names_wf : forall labels,
  Forall label_wf labels -> Forall (fun l => ~ In 46 l /\ starts_us l = false) labels ->
  wf_str (join_dot labels).
Proof. exact wf_str_plain. Qed.
Print Assumptions C04_dns_plain_names_wf.

(* ---- C05: the decoder terminates within a polynomial number of steps ---------------------- *)

(* One unit of fuel = one iteration of `while buffer:` in parse_domain_name.  (len+1)^2 units
   always suffice, for every buffer and every start offset. *)
Theorem C05_dns_parse_name_fuel_enough : forall buf p,
  parse_name_loop (S (length buf) * S (length buf)) buf p [] None [] <> DOutOfFuel.
Proof. exact loop_name_fuel_no_oof. Qed.
Print Assumptions C05_dns_parse_name_fuel_enough.

(* fuel is only a bound: more fuel never changes an answer *)
Theorem C05_dns_fuel_irrelevant : forall f k buf p r,
  parse_name_loop f buf p [] None [] = r -> r <> DOutOfFuel ->
  parse_name_loop (f + k) buf p [] None [] = r.
Proof. intros. now apply loop_fuel_mono. Qed.
Print Assumptions C05_dns_fuel_irrelevant.

(* a pointer whose target was visited before is rejected with ValueError in that very iteration *)
Theorem C05_dns_pointer_loop_rejected : forall f buf p acc comp visited hi lo,
  nth_error buf p = Some hi -> 192 <= hi < 256 -> nth_error buf (S p) = Some lo ->
  In (N.to_nat ((hi - 192) * 256 + lo)) visited ->
  parse_name_loop (S f) buf p acc comp visited = DRaise EValue.
Proof. exact visited_target_rejected. Qed.
Print Assumptions C05_dns_pointer_loop_rejected.

(* every cycle of compression pointers (p -> t1 -> ... -> tk -> back to some ti) is answered with
   ValueError - never a hang, never OutOfFuel - within k+1 iterations *)
Theorem C05_dns_pointer_cycle_rejected : forall buf ts p back,
  ptr_path buf p ts -> ptr_at buf (last ts p) back -> In back ts ->
  parse_name buf p = DRaise EValue.
Proof.
  intros buf ts p back Hp Hb Hin.
  assert (H : parse_name_loop (S (length ts)) buf p [] None [] = DRaise EValue).
  { apply ptr_cycle_rejected with (ts := ts) (back := back); auto.
    now rewrite app_nil_r. }
  rewrite parse_name_eq. rewrite <- H.
  apply loop_fuel_agree; [apply loop_name_fuel_no_oof|rewrite H; discriminate].
Qed.
Print Assumptions C05_dns_pointer_cycle_rejected.

(* the whole message decoder never runs out of fuel either: every loop in it is bounded by a
   count read from the input (sections), by the RDLENGTH (TXT strings) or by name_fuel (names) *)
Theorem C05_dns_unpack_never_out_of_fuel : forall buf, unpack_msg buf <> DOutOfFuel.
Proof. exact unpack_no_oof. Qed.
Print Assumptions C05_dns_unpack_never_out_of_fuel.

(* progress: each decoded question took at least 5 bytes of the message, each record at least 11,
   and the stream never ran past the end - so however large the counts in a hostile header are
   (up to 65535 each), the section loops of unpack make at most len/5 successful iterations, each
   of which parses names within (len+1)^2 steps: a cubic bound for the whole message *)
Theorem C05_dns_unpack_progress : forall buf id fl qs an ns ar,
  unpack_msg buf = DOk (M id fl qs an ns ar) ->
  (12 + 5 * length qs + 11 * (length an + length ns + length ar) <= length buf)%nat.
Proof. exact unpack_size. Qed.
Print Assumptions C05_dns_unpack_progress.

(* ---- non-vacuity and regression witnesses --------------------------------------------------- *)

(* the pre-fix hang witness: 12 zero bytes + c0 0c, parsed at offset 12 *)
Example C05_dns_self_pointer_witness :
  parse_name (repeat 0 12 ++ [192; 12]) 12 = DRaise EValue.
Proof. vm_compute. reflexivity. Qed.

(* a cycle of two pointers 12 -> 14 -> 12: the pointer met again at 12 targets 14, visited before *)
Example C05_dns_two_cycle_witness :
  parse_name (repeat 0 12 ++ [192; 14; 192; 12]) 12 = DRaise EValue.
Proof.
  apply C05_dns_pointer_cycle_rejected with (ts := [14%nat; 12%nat]) (back := 14%nat).
  - cbn [ptr_path]. repeat split.
    + exists 192, 14. repeat split; try reflexivity; Lia.lia.
    + exists 192, 12. repeat split; try reflexivity; Lia.lia.
  - cbn [last]. exists 192, 14. repeat split; try reflexivity; Lia.lia.
  - now left.
Qed.

(* "local" as a name *)
Definition ex_local : list N := [108; 111; 99; 97; 108].
Definition ex_airplay : list N := [95; 97; 105; 114; 112; 108; 97; 121].   (* _airplay *)
Definition ex_tcp : list N := [95; 116; 99; 112].

Example C04_dns_ex_labels_wf : Forall label_wf [ex_airplay; ex_tcp; ex_local].
Proof. repeat constructor. Qed.

(* a compressed message: one question "_airplay._tcp.local" PTR IN, one PTR answer whose owner name
   is a pointer to offset 12 and whose target is "tv" + pointer to offset 12 *)
Definition ex_msg_bytes : list N :=
  [0;0; 132;0; 0;1; 0;1; 0;0; 0;0]
  ++ [8] ++ ex_airplay ++ [4] ++ ex_tcp ++ [5] ++ ex_local ++ [0] ++ [0;12; 0;1]
  ++ [192;12] ++ [0;12; 0;1; 0;0;0;120; 0;5] ++ [2;116;118; 192;12].

Example C04_dns_ex_compressed_message :
  unpack_msg ex_msg_bytes
  = DOk (M 0 33792
           [Q (join_dot [ex_airplay; ex_tcp; ex_local]) 12 1]
           [R (join_dot [ex_airplay; ex_tcp; ex_local]) 12 1 120 5
              (RName (join_dot [[116;118]; ex_airplay; ex_tcp; ex_local]))] [] []).
Proof. vm_compute. reflexivity. Qed.

(* the hypotheses of the round trip are satisfiable: a query as pyatv's mdns.py sends it *)
Definition ex_query : msg :=
  M 13823 288 [Q (join_dot [ex_airplay; ex_tcp; ex_local]) 12 32769] [] [] [].
Example C04_dns_ex_query_wf : wf_msg ex_query.
Proof.
  unfold ex_query, wf_msg.
  split; [reflexivity|]. split; [reflexivity|]. split; [reflexivity|]. split; [reflexivity|].
  split; [reflexivity|]. split; [reflexivity|].
  split; [|split; [constructor|split; constructor]].
  constructor; [|constructor]. unfold wf_q.
  split; [|split; reflexivity].
  apply wf_strb_sound. vm_compute. reflexivity.
Qed.

(* DNS-SD names are carried faithfully too, including an instance label that contains a dot:
   "My.TV._airplay._tcp.local" goes on the wire as the labels "My.TV", "_airplay", "_tcp", "local" *)
Definition ex_instance : list N := [77; 121; 46; 84; 86; 46] ++ join_dot [ex_airplay; ex_tcp; ex_local].
Example C04_dns_ex_instance_wf : wf_str ex_instance.
Proof. apply wf_strb_sound. vm_compute. reflexivity. Qed.
Example C04_dns_ex_instance_labels :
  wire_labels ex_instance = [[77; 121; 46; 84; 86]; ex_airplay; ex_tcp; ex_local].
Proof. vm_compute. reflexivity. Qed.

(* a TXT record as an Apple TV announces it: "deviceid=AA" and the bare flag "pw" *)
Example C04_dns_ex_txt :
  txt_ok [([100; 101; 118; 105; 99; 101; 105; 100], Some [65; 65]); ([80; 119], None)].
Proof.
  split.
  - repeat constructor; cbn; try discriminate; try Lia.lia.
  - repeat constructor; cbn; intuition discriminate.
Qed.
