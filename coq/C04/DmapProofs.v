From Coq Require Import Arith NArith List Bool Lia.
From PV Require Import Common.Endian C04.DmapModel.
Import ListNotations.

Section Dmap.
Variable is_cont : name -> bool.

Fixpoint wf_node (nm : name) (n : node) : Prop :=
  length nm = 4 /\
  match n with
  | Leaf p => is_cont nm = false /\ (N.of_nat (length p) < 256 ^ 4)%N
  | Cont ch =>
      is_cont nm = true /\ (N.of_nat (length (enc_items ch)) < 256 ^ 4)%N /\
      (fix all (l : items) : Prop :=
         match l with [] => True | (k, v) :: t => wf_node k v /\ all t end) ch
  end.

Fixpoint wf_items (l : items) : Prop :=
  match l with [] => True | (k, v) :: t => wf_node k v /\ wf_items t end.

Lemma wf_cont_items nm ch : wf_node nm (Cont ch) ->
  length nm = 4 /\ is_cont nm = true /\ (N.of_nat (length (enc_items ch)) < 256 ^ 4)%N /\ wf_items ch.
Proof.
  cbn [wf_node]. intros (H1 & H2 & H3 & H4). split; [exact H1|]. split; [exact H2|]. split; [exact H3|].
  clear -H4. induction ch as [|[k v] t IH]; [exact I|]. destruct H4 as [Ha Hb]. split; [exact Ha|now apply IH].
Qed.

Fixpoint nsize (n : node) : nat :=
  match n with
  | Leaf _ => 0
  | Cont ch => (fix go (l : items) : nat := match l with [] => 1 | (_, v) :: t => 1 + nsize v + go t end) ch
  end.
Fixpoint size (l : items) : nat :=
  match l with [] => 1 | (_, v) :: t => 1 + nsize v + size t end.
Lemma nsize_cont ch : nsize (Cont ch) = size ch.
Proof. cbn [nsize]. induction ch as [|[k v] t IH]; [reflexivity|]. cbn [size]. now rewrite IH. Qed.

Lemma slice_mid (pre x post : list N) n : length x = n -> slice (pre ++ x ++ post) (length pre) n = x.
Proof.
  intro H. unfold slice. rewrite skipn_app, skipn_all, Nat.sub_diag, skipn_O. cbn [app].
  rewrite firstn_app, <- H, firstn_all, Nat.sub_diag, firstn_O. apply app_nil_r.
Qed.

Lemma enc_node_header nm n : exists payload,
  enc_node nm n = nm ++ be_enc 4 (N.of_nat (length payload)) ++ payload /\
  payload = match n with Leaf p => p | Cont ch => enc_items ch end.
Proof.
  destruct n as [p|ch].
  - exists p. split; reflexivity.
  - exists (enc_items ch). split; [apply enc_node_cont|reflexivity].
Qed.

(* the parser recovers exactly the encoded items, wherever they sit in the buffer *)
Lemma parse_enc : forall fuel its pre post,
  wf_items its -> size its <= fuel ->
  parse fuel is_cont (pre ++ enc_items its ++ post) (length pre + length (enc_items its)) (length pre)
  = Some its.
Proof.
  induction fuel as [|f IH]; intros its pre post Hwf Hsz.
  - destruct its as [|[k v] t]; simpl in Hsz; lia.
  - destruct its as [|[k v] t].
    + cbn [enc_items length parse]. rewrite Nat.add_0_r, Nat.leb_refl. reflexivity.
    + destruct Hwf as [Hv Ht]. cbn [enc_items size] in *.
      destruct (enc_node_header k v) as (payload & Henc & Hpay).
      assert (Hk: length k = 4) by (destruct v; cbn [wf_node] in Hv; tauto).
      assert (Hlen: (N.of_nat (length payload) < 256 ^ 4)%N).
      { subst payload. destruct v as [p|ch]; [cbn [wf_node] in Hv; tauto|]. apply wf_cont_items in Hv. tauto. }
      cbn [parse]. rewrite Henc. rewrite !app_length, be_enc_length.
      replace (length pre + (length k + (4 + length payload) + length (enc_items t)) <=? length pre) with false
        by (symmetry; apply Nat.leb_gt; lia).
      replace (pre ++ ((k ++ be_enc 4 (N.of_nat (length payload)) ++ payload) ++ enc_items t) ++ post)
        with (pre ++ k ++ (be_enc 4 (N.of_nat (length payload)) ++ payload ++ enc_items t ++ post))
        by (rewrite <- !app_assoc; reflexivity).
      rewrite (slice_mid pre k _ 4 Hk).
      replace (pre ++ k ++ be_enc 4 (N.of_nat (length payload)) ++ payload ++ enc_items t ++ post)
        with ((pre ++ k) ++ be_enc 4 (N.of_nat (length payload)) ++ (payload ++ enc_items t ++ post))
        by (rewrite <- !app_assoc; reflexivity).
      replace (length pre + 4) with (length (pre ++ k)) by (rewrite app_length; lia).
      rewrite (slice_mid (pre ++ k) (be_enc 4 (N.of_nat (length payload))) _ 4 (be_enc_length 4 _)).
      rewrite be_dec_enc by assumption. rewrite Nat2N.id.
      set (pre2 := (pre ++ k) ++ be_enc 4 (N.of_nat (length payload))).
      assert (Hp2: length pre + 8 = length pre2).
      { unfold pre2. rewrite !app_length, be_enc_length. lia. }
      replace ((pre ++ k) ++ be_enc 4 (N.of_nat (length payload)) ++ payload ++ enc_items t ++ post)
        with (pre2 ++ payload ++ (enc_items t ++ post)) by (unfold pre2; rewrite <- !app_assoc; reflexivity).
      rewrite Hp2.
      assert (Hrest: parse f is_cont (pre2 ++ payload ++ enc_items t ++ post)
                (length pre + (length k + (4 + length payload) + length (enc_items t)))
                (length pre2 + length payload) = Some t).
      { replace (pre2 ++ payload ++ enc_items t ++ post) with ((pre2 ++ payload) ++ enc_items t ++ post)
          by (rewrite <- !app_assoc; reflexivity).
        replace (length pre + (length k + (4 + length payload) + length (enc_items t)))
          with (length (pre2 ++ payload) + length (enc_items t)) by (rewrite app_length; lia).
        replace (length pre2 + length payload) with (length (pre2 ++ payload)) by (rewrite app_length; lia).
        apply IH; [assumption|lia]. }
      destruct v as [p|ch].
      * cbn [wf_node] in Hv. destruct Hv as (_ & Hc & _). rewrite Hc. subst payload.
        rewrite Hrest. rewrite (slice_mid pre2 p _ (length p) eq_refl). reflexivity.
      * apply wf_cont_items in Hv. destruct Hv as (_ & Hc & _ & Hch). rewrite Hc. subst payload.
        rewrite nsize_cont in Hsz.
        rewrite (IH ch pre2 (enc_items t ++ post) Hch ltac:(lia)).
        rewrite Hrest. reflexivity.
Qed.

(* C04: every well-formed tag tree decodes back to itself *)
Theorem dmap_roundtrip its : wf_items its ->
  parse_top (size its) is_cont (enc_items its) = Some its.
Proof.
  intro H. unfold parse_top.
  pose proof (parse_enc (size its) its [] [] H (le_n _)) as P.
  cbn [app length] in P. rewrite app_nil_r in P. exact P.
Qed.

End Dmap.

(* typed tags *)
Theorem uint_tag_roundtrip k n : (n < 256 ^ N.of_nat k)%N -> read_uint (be_enc k n) = n.
Proof. apply be_dec_enc. Qed.
Theorem bool_tag_roundtrip (b : bool) : read_bool [if b then 1%N else 0%N] = b.
Proof. destruct b; reflexivity. Qed.
