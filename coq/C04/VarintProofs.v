From Coq Require Import NArith ZArith List Lia.
From PV Require Import Common.Endian C04.VarintModel.
Import ListNotations.
Local Open Scope N_scope.
Ltac Zify.zify_post_hook ::= Z.to_euclidean_division_equations.


Lemma read_write_gen : forall fuel n rest mul acc,
  n < 128 ^ N.of_nat fuel -> (0 < fuel)%nat ->
  read_var (write_var fuel n ++ rest) mul acc = Some (acc + n * mul, rest).
Proof.
  induction fuel as [|f IH]; intros n rest mul acc Hn Hf; [inversion Hf|].
  cbn [write_var]. destruct (n <? 128) eqn:E.
  - apply N.ltb_lt in E. cbn [app read_var]. rewrite (proj2 (N.ltb_lt _ _) E).
    rewrite N.mod_small by assumption. reflexivity.
  - apply N.ltb_ge in E. cbn [app read_var].
    assert (Hb: n mod 128 + 128 <? 128 = false) by (apply N.ltb_ge; lia).
    rewrite Hb.
    assert (Hm: (n mod 128 + 128) mod 128 = n mod 128).
    { rewrite <- (N.mul_1_l 128) at 2. rewrite N.mod_add by discriminate. apply N.mod_mod. discriminate. }
    rewrite Hm.
    destruct f as [|f'].
    + simpl in Hn. lia.
    + rewrite IH.
      * f_equal. f_equal. pose proof (N.div_mod' n 128). nia.
      * rewrite Nat2N.inj_succ, N.pow_succ_r' in Hn. apply N.div_lt_upper_bound; [discriminate|lia].
      * lia.
Qed.

Lemma pos_size_bound : forall p, N.pos p < 2 ^ N.of_nat (Pos.size_nat p).
Proof.
  induction p as [p IH|p IH|]; cbn [Pos.size_nat].
  - rewrite Nat2N.inj_succ, N.pow_succ_r'. change (N.pos p~1) with (2 * N.pos p + 1). lia.
  - rewrite Nat2N.inj_succ, N.pow_succ_r'. change (N.pos p~0) with (2 * N.pos p). lia.
  - simpl. lia.
Qed.

Lemma size_bound n : n < 128 ^ N.of_nat (S (N.size_nat n)).
Proof.
  destruct n as [|p]; [simpl; lia|].
  eapply N.lt_le_trans; [apply pos_size_bound|]. cbn [N.size_nat].
  rewrite Nat2N.inj_succ, N.pow_succ_r'.
  transitivity (128 ^ N.of_nat (Pos.size_nat p)).
  - apply N.pow_le_mono_l. lia.
  - pose proof (N.pow_nonzero 128 (N.of_nat (Pos.size_nat p)) ltac:(discriminate)). lia.
Qed.

Theorem varint_roundtrip n rest : read_variant (write_variant n ++ rest) = Some (n, rest).
Proof.
  unfold read_variant, write_variant. rewrite read_write_gen.
  - f_equal. f_equal. lia.
  - apply size_bound.
  - lia.
Qed.

(* every byte written is a byte, and all but the last have the continuation bit *)
Lemma write_var_wf : forall fuel n, wf_bytes (write_var fuel n).
Proof.
  induction fuel as [|f IH]; intro n; cbn [write_var]; [constructor|].
  destruct (n <? 128) eqn:E.
  - apply N.ltb_lt in E. repeat constructor. lia.
  - constructor; [|apply IH]. pose proof (N.mod_lt n 128). lia.
Qed.

Theorem write_variant_wf n : wf_bytes (write_variant n).
Proof. apply write_var_wf. Qed.

(* the decoder never reads past the first byte without continuation bit:
   structurally recursive on the input, at most one step per byte (C05) *)
Lemma read_var_consumes : forall l mul acc v r, read_var l mul acc = Some (v, r) ->
  exists pre, l = pre ++ r /\ (0 < length pre)%nat.
Proof.
  induction l as [|b t IH]; intros mul acc v r H; [discriminate|].
  cbn [read_var] in H. destruct (b <? 128).
  - inversion H; subst. exists [b]. split; [reflexivity|simpl; lia].
  - apply IH in H as (pre & -> & Hl). exists (b :: pre). split; [reflexivity|simpl; lia].
Qed.
