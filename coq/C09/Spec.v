(* C09 - the property as plain mathematical objects (written from the property text,
   not from the code).

   1. What "every call on the public interfaces raises the blocked-state error" ranges
      over: the table of public facade members is GENERATED from /repo on every run
      (Gen.v, by introspection of the facade classes); the only members that need not be
      blocked are spelled out here, by name.
   2. "The first one reported": the list of notifications that the protocols (and a
      closing DMAP-like protocol) attempt to send, in order. *)
From Coq Require Import List Bool String Arith.
Import ListNotations.
Local Open Scope string_scope.

(* one public member of one facade object, as found by introspection *)
Record member := {
  m_iface : string;      (* RemoteControl, Audio, ..., AppleTV *)
  m_name : string;
  m_kind : nat;          (* 0 method, 1 coroutine method, 2 property *)
  m_wrapped : bool;      (* carries the shield.guard wrapper (static introspection) *)
  m_blocks : bool        (* an inherited helper that only works through guarded members:
                            observed to raise BlockedStateError on a closed facade *)
}.

(* Members that are allowed to stay callable after close: close() itself (the property
   demands that it can be called again), the set-up entry points used by pyatv.connect
   and the protocols, and the listener call-backs that protocols (not users) invoke. *)
Definition exempt : list (string * string) := [
  ("AppleTV", "close"); ("AppleTV", "add_protocol"); ("AppleTV", "takeover");
  ("Features", "add_mapping");
  ("Power", "powerstate_update");
  ("PushUpdater", "playstatus_update"); ("PushUpdater", "playstatus_error")
].

Definition pair_eqb (a b : string * string) : bool :=
  String.eqb (fst a) (fst b) && String.eqb (snd a) (snd b).

Definition is_exempt (m : member) : bool :=
  existsb (pair_eqb (m_iface m, m_name m)) exempt.

Definition protected (m : member) : bool := m_wrapped m || m_blocks m.

(* the finite obligation re-checked against the generated table on every run *)
Definition all_guarded (ms : list member) : bool :=
  forallb (fun m => is_exempt m || protected m) ms.

(* ---- notifications attempted, in order ------------------------------------------- *)

Inductive notif := NLost (i e : nat) | NClosed.

(* state of the weak reference to the user's DeviceListener *)
Inductive lkind := LNone | LLive | LDead.          (* no listener set | alive | weakref expired *)

Inductive ev :=
  | Lost (i e : nat)        (* protocol i reports connection_lost(exception e) *)
  | Closed (i : nat)        (* protocol i reports connection_closed() *)
  | UserClose               (* atv.close() *)
  | Api (m : nat)           (* call of the m-th member of the generated table *)
  | PushStart | PushStop    (* atv.push_updater.start() / .stop() *)
  | PostPlay (i : nat)      (* protocol i's push updater produces a new play status *)
  | PostErr (i : nat)       (* protocol i's push updater reports a play status error *)
  | RunLoop                 (* the event loop runs everything scheduled so far *)
  | SetListener (l : lkind).  (* the user assigns atv.listener (again): None | a listener that
                                 stays alive | a listener that is dropped at once *)

(* ndm = number of connected protocols whose close() itself reports connection_closed
   (DMAP does); they speak up when the device object is closed for the first time. *)
(* each report is listed with the state of the listener at that moment (l: the current one) *)
Fixpoint reported (ndm : nat) (closed : bool) (l : lkind) (h : list ev) : list (notif * lkind) :=
  match h with
  | [] => []
  | Lost i e :: t =>
      (NLost i e, l) :: (if closed then [] else repeat (NClosed, l) ndm) ++ reported ndm true l t
  | Closed i :: t =>
      (NClosed, l) :: (if closed then [] else repeat (NClosed, l) ndm) ++ reported ndm true l t
  | UserClose :: t => (if closed then [] else repeat (NClosed, l) ndm) ++ reported ndm true l t
  | SetListener l' :: t => reported ndm closed l' t
  | _ :: t => reported ndm closed l t
  end.

(* what the user's listener objects may hear over the whole lifetime of the device object: the
   FIRST report, if a listener was alive at that moment - and never anything else, whichever
   listener objects are assigned later *)
Definition heard (r : list (notif * lkind)) : list notif :=
  match r with
  | (k, LLive) :: _ => [k]
  | _ => []
  end.

Definition is_setl (e : ev) : bool := match e with SetListener _ => true | _ => false end.

Definition is_closing (e : ev) : bool :=
  match e with Lost _ _ | Closed _ | UserClose => true | _ => false end.
