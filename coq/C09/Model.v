(* C09 - model of the close / connection-lost machinery of the facade.

   Mirrors, branch for branch:
     pyatv/support/state_producer.py  _ListenerProxy.__getattr__  (calls_made / max_calls=1,
                                      weak reference: none | live | dead, state_was_updated
                                      BEFORE the bound method is handed out)
     pyatv/core/facade.py             FacadeAppleTV.close, state_was_updated -> close,
                                      _block_everything, FacadePushUpdater.start/stop
     pyatv/support/shield.py          guard (BlockedStateError when blocking)
     pyatv/protocols/dmap/__init__.py _close: reports connection_closed() from inside close
                                      (re-enters FacadeAppleTV.close through the proxy)
     pyatv/core/__init__.py           AbstractPushUpdater.post_update and the protocols' error report
     pyatv/protocols/mrp/__init__.py  (MrpPushUpdater.state_updated): loop.call_soon(self.listener.
                                      playstatus_update | playstatus_error, self, ...) - the listener
                                      method is resolved when scheduling (null function without listener)
     pyatv/core/facade.py             FacadePushUpdater.playstatus_update / playstatus_error: forwarded
                                      iff _forward_updates and updater == main_instance, tested when
                                      the call-back runs

   A configuration is the list of connected protocols (does its close() report
   connection_closed?  how many tasks does it return?) and the state of the user's
   listener.  An event is one synchronous call into the facade.  The observable trace is
   the list of calls made to the collaborators: the push updaters of the protocols, the
   session manager, the close functions of the protocols and the user's DeviceListener. *)
From Coq Require Import List Arith Bool.
From PV Require Import Common.Cases C09.Spec C09.Gen.
Import ListNotations.

Record pcfg := { dmaplike : bool; ntasks : nat }.
(* mainp: index of the protocol whose push updater is the main instance (highest priority) *)
Record cfg := { protos : list pcfg; mainp : nat }.

Inductive qitem := QUpd (err : bool) (i : nat) | QNoop.   (* scheduled call-backs *)

Inductive task := TSess | TProto (i k : nat).
Inductive obs :=
  | UpdStart (i : nat) | UpdStop (i : nat)        (* protocol i's push updater .start() / .stop() *)
  | SessClose                                     (* session_manager.close() *)
  | ProtoClose (i : nat)                          (* SetupData.close() of protocol i *)
  | Notify (n : notif)                            (* call received by the user's DeviceListener *)
  | PushGot (err : bool) (i : nat).               (* the user's PushListener got an update (false) or an
                                                     error (true) of protocol i's updater *)
Inductive res := RNone | ROk | RBlocked | RTasks (l : list task) | RFuel.

Record st := { blocked : bool; pending : option (list task); calls : nat;
               fwd : bool;                 (* FacadePushUpdater._forward_updates *)
               lis : bool;                 (* do the protocols' updaters have the facade as listener? *)
               queue : list qitem;         (* loop.call_soon FIFO *)
               lstn : lkind }.             (* StateProducer.__listener of the device object *)

Definition init : st :=
  {| blocked := false; pending := None; calls := 0; fwd := false; lis := false; queue := [];
     lstn := LNone |}.

Definition set_blocked (s : st) (b : bool) : st :=
  {| blocked := b; pending := pending s; calls := calls s; fwd := fwd s; lis := lis s; queue := queue s; lstn := lstn s |}.
Definition set_pending (s : st) (p : option (list task)) : st :=
  {| blocked := blocked s; pending := p; calls := calls s; fwd := fwd s; lis := lis s; queue := queue s; lstn := lstn s |}.
Definition set_calls (s : st) (n : nat) : st :=
  {| blocked := blocked s; pending := pending s; calls := n; fwd := fwd s; lis := lis s; queue := queue s; lstn := lstn s |}.
Definition set_push (s : st) (b : bool) : st :=      (* start: listener set + forwarding on; stop: both off *)
  {| blocked := blocked s; pending := pending s; calls := calls s; fwd := b; lis := b; queue := queue s; lstn := lstn s |}.
Definition set_lstn (s : st) (l : lkind) : st :=
  {| blocked := blocked s; pending := pending s; calls := calls s; fwd := fwd s; lis := lis s; queue := queue s; lstn := l |}.
Definition set_queue (s : st) (q : list qitem) : st :=
  {| blocked := blocked s; pending := pending s; calls := calls s; fwd := fwd s; lis := lis s; queue := q; lstn := lstn s |}.

Definition max_calls : nat := 1.                    (* FacadeAppleTV: super().__init__(max_calls=1) *)

(* atv.listener.<attr>(...)  -  _ListenerProxy.__getattr__ followed by the call.
   closef is FacadeAppleTV.close (through state_was_updated). *)
Definition report_with (closef : st -> st * list obs) (l : lkind) (s : st) (k : notif)
  : st * list obs :=
  let s1 := set_calls s (S (calls s)) in             (* producer.calls_made += 1 *)
  if max_calls <? calls s1 then (s1, [])             (* beyond max_calls: null function *)
  else match l with
       | LNone => closef s1                          (* no listener: still state_was_updated() *)
       | LLive => let '(s2, o) := closef s1 in       (* state_was_updated() first ... *)
                  (s2, o ++ [Notify k])              (* ... then the listener's method runs *)
       | LDead => closef s1                          (* expired weak reference: like no listener
                                                        (repaired in /repo commit 0227894; before
                                                        that this branch did nothing at all) *)
       end.

Definition proto_tasks (i : nat) (p : pcfg) : list task := map (TProto i) (seq 0 (ntasks p)).

Definition add_pending (s : st) (l : list task) : st :=
  set_pending s (match pending s with Some t => Some (t ++ l) | None => None end).

(* for setup_data in self._protocol_handlers.values():
       self._pending_tasks.update(setup_data.close()) *)
Fixpoint close_protos (closef : st -> st * list obs) (l : lkind) (i : nat) (ps : list pcfg) (s : st)
  : st * list obs :=
  match ps with
  | [] => (s, [])
  | p :: t =>
      let '(s1, o1) :=
        if dmaplike p then report_with closef l s NClosed   (* DMAP _close: listener.connection_closed() *)
        else (s, []) in
      let s2 := add_pending s1 (proto_tasks i p) in
      let '(s3, o3) := close_protos closef l (S i) t s2 in
      (s3, ProtoClose i :: o1 ++ o3)
  end.

(* FacadeAppleTV.close; fuel bounds the re-entrancy close -> protocol close -> proxy -> close *)
Fixpoint close_f (fuel : nat) (c : cfg) (s : st) : st * list obs * res :=
  match pending s with
  | Some t => (s, [], RTasks t)                        (* close was called before *)
  | None =>
    match fuel with
    | 0 => (s, [], RFuel)
    | S f =>
      if blocked s then (s, [], RBlocked)              (* self.push_updater is guarded *)
      else
        let n := length (protos c) in
        let s0 := set_push s false in                  (* FacadePushUpdater.stop() *)
        let s1 := set_pending s0 (Some [TSess]) in     (* set(); add(create_task(session.close())) *)
        let closef := fun x => let '(a, b, _) := close_f f c x in (a, b) in
        let '(s2, o2) := close_protos closef (lstn s1) 0 (protos c) s1 in
        let s3 := set_blocked s2 true in               (* _block_everything() *)
        (s3, map UpdStop (seq 0 n) ++ SessClose :: o2,
         RTasks (match pending s3 with Some t => t | None => [] end))
    end
  end.

Definition close (c : cfg) (s : st) : st * list obs * res := close_f 2 c s.

Definition report (c : cfg) (s : st) (k : notif) : st * list obs :=
  report_with (fun x => let '(a, b, _) := close c x in (a, b)) (lstn s) s k.

(* one scheduled call-back runs: FacadePushUpdater.playstatus_update / playstatus_error *)
Definition deliver_q (c : cfg) (s : st) (q : qitem) : list obs :=
  match q with
  | QUpd e i => if fwd s && (i =? mainp c) then [PushGot e i] else []
  | QNoop => []
  end.

Definition schedule (s : st) (e : bool) (i : nat) : st :=
  set_queue s (queue s ++ [if lis s then QUpd e i else QNoop]).

Definition step (c : cfg) (s : st) (e : ev) : st * list obs * res :=
  match e with
  | Lost i x => let '(s', o) := report c s (NLost i x) in (s', o, RNone)
  | Closed i => let '(s', o) := report c s NClosed in (s', o, RNone)
  | UserClose => close c s
  | Api m =>                                       (* any other public member: guard, then relay *)
      match nth_error members m with
      | Some mem => (s, [], if blocked s && protected mem then RBlocked else ROk)
      | None => (s, [], RNone)
      end
  | PushStart =>                                   (* FacadePushUpdater.start / stop have an effect of
                                                      their own on the updaters: dedicated events *)
      if blocked s then (s, [], RBlocked)
      else (set_push s true, map UpdStart (seq 0 (length (protos c))), ROk)
  | PushStop =>
      if blocked s then (s, [], RBlocked)
      else (set_push s false, map UpdStop (seq 0 (length (protos c))), ROk)
  | PostPlay i => (schedule s false i, [], RNone)
  | PostErr i => (schedule s true i, [], RNone)
  | RunLoop => (set_queue s [], flat_map (deliver_q c s) (queue s), RNone)
  | SetListener l => (set_lstn s l, [], RNone)      (* the setter stores a weak reference, nothing else:
                                                       calls_made keeps counting over all listeners *)
  end.

(* per-event outputs *)
Fixpoint run (c : cfg) (s : st) (h : list ev) : list (list obs * res) :=
  match h with
  | [] => []
  | e :: t => let '(s', o, r) := step c s e in (o, r) :: run c s' t
  end.

Fixpoint final (c : cfg) (s : st) (h : list ev) : st :=
  match h with
  | [] => s
  | e :: t => let '(s', _, _) := step c s e in final c s' t
  end.

Definition trace (c : cfg) (s : st) (h : list ev) : list obs := concat (map fst (run c s h)).

(* ---- correspondence ----------------------------------------------------------------- *)

Definition notif_eqb (a b : notif) : bool :=
  match a, b with
  | NLost i e, NLost j f => (i =? j) && (e =? f)
  | NClosed, NClosed => true
  | _, _ => false
  end.
Definition task_eqb (a b : task) : bool :=
  match a, b with
  | TSess, TSess => true
  | TProto i k, TProto j l => (i =? j) && (k =? l)
  | _, _ => false
  end.
Definition obs_eqb (a b : obs) : bool :=
  match a, b with
  | UpdStart i, UpdStart j | UpdStop i, UpdStop j | ProtoClose i, ProtoClose j => i =? j
  | SessClose, SessClose => true
  | Notify n, Notify m => notif_eqb n m
  | PushGot e i, PushGot f j => Bool.eqb e f && (i =? j)
  | _, _ => false
  end.
Definition res_eqb (a b : res) : bool :=
  match a, b with
  | RNone, RNone | ROk, ROk | RBlocked, RBlocked | RFuel, RFuel => true
  | RTasks l, RTasks m => list_beq task_eqb l m
  | _, _ => false
  end.
Definition out_eqb (a b : list obs * res) : bool :=
  list_beq obs_eqb (fst a) (fst b) && res_eqb (snd a) (snd b).

(* (configuration, events, what the real facade did per event, do push updates still
   reach the user after the last event?) *)
Definition check_case (x : cfg * list ev * list (list obs * res) * bool) : bool :=
  let '(c, h, outs, live) := x in
  list_beq out_eqb (run c init h) outs && (* a status posted after the history reaches the user iff the facade still forwards and there is
     a registered updater to post it *)
  Bool.eqb (fwd (final c init h) && negb (length (protos c) =? 0)) live.
