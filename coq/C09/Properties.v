(* C09 - property theorems only.  For EVERY configuration (any number of protocols, each
   DMAP-like or not, any listener state) and EVERY event history.  `members` is the table
   generated from /repo on this run (Gen.v). *)
From Coq Require Import List Arith Bool Lia.
From PV Require Import C09.Spec C09.Gen C09.Model C09.Proofs.
Import ListNotations.

(* Finite obligation against the generated table: every public member of every facade
   object carries the guard (or is an inherited helper that was observed to raise the
   blocked-state error), except the members named in Spec.exempt.  An unguarded new public
   method makes this fail. *)
Theorem C09_all_members_guarded :
  forall mem, In mem members -> is_exempt mem = false -> protected mem = true.
Proof.
  assert (H : all_guarded members = true) by (vm_compute; reflexivity).
  intros mem I E. unfold all_guarded in H. rewrite forallb_forall in H.
  specialize (H mem I). now rewrite E in H.
Qed.
Print Assumptions C09_all_members_guarded.

(* Over the lifetime of one device object the user's listener objects - however often the
   listener is assigned again, to the same or to another object - receive at most one
   connection_lost/connection_closed in total. *)
Theorem C09_at_most_one_notification :
  forall c h, length (notifs (trace c init h)) <= 1.
Proof.
  intros c h. rewrite (notifs_open c h init init_open). unfold expected, heard.
  destruct (reported (count_dm (protos c)) false (lstn init) h) as [|[k l] t]; [simpl; lia|].
  destruct l; simpl; lia.
Qed.
Print Assumptions C09_at_most_one_notification.

(* ... and it is the first one reported, heard by the listener that is alive at that moment
   (Spec.reported lists the reports in the order in which they are made, including those a
   DMAP-like protocol makes when it is closed, each with the state of the listener then);
   if no listener is alive then, nothing is ever delivered - a listener assigned later does
   not re-arm the notification. *)
Theorem C09_first_reported_wins :
  forall c h,
    notifs (trace c init h) = heard (reported (count_dm (protos c)) false LNone h).
Proof. intros c h. exact (notifs_open c h init init_open). Qed.
Print Assumptions C09_first_reported_wins.

(* readable special case: a live listener is assigned, nothing that reports or closes or
   re-assigns happens, then protocol i reports lost(e): the listener gets exactly that, no
   matter what came before the assignment (if it was no report and no close) or what follows -
   further reports, a new listener, another close *)
Theorem C09_first_lost_is_delivered :
  forall c pre0 pre i e post,
    forallb (fun x => negb (is_closing x)) pre0 = true ->
    forallb (fun x => negb (is_closing x) && negb (is_setl x)) pre = true ->
    notifs (trace c init (pre0 ++ SetListener LLive :: pre ++ Lost i e :: post)) = [NLost i e].
Proof.
  intros c pre0 pre i e post Q0 Q. rewrite C09_first_reported_wins.
  generalize LNone as l.
  induction pre0 as [|x pre0 IH0]; intro l.
  - simpl. induction pre as [|x pre IH]; [reflexivity|].
    simpl in Q. apply andb_true_iff in Q as [Q1 Q2]. destruct x; try discriminate; simpl; now apply IH.
  - simpl in Q0. apply andb_true_iff in Q0 as [Q1 Q2]. destruct x; try discriminate; simpl; now apply IH0.
Qed.
Print Assumptions C09_first_lost_is_delivered.

(* re-assigning the listener after the notification was delivered does not re-arm it *)
Theorem C09_reassigned_listener_hears_nothing_more :
  forall c i e l post,
    notifs (trace c init (SetListener LLive :: Lost i e :: SetListener l :: post)) = [NLost i e].
Proof. intros. rewrite C09_first_reported_wins. reflexivity. Qed.
Print Assumptions C09_reassigned_listener_hears_nothing_more.

(* After the user closes, or after ANY protocol reports lost or closed (x), the device
   object is blocked for good: the rest of the run (post) is the run from a blocked state in
   which every guarded member and push start/stop raise the blocked-state error, close()
   returns the same task set and calls nobody, further reports call nobody but (at most)
   the device listener, and running the loop delivers NOTHING to the push listener - neither
   play statuses nor errors, including those that were scheduled before the close. *)
Theorem C09_blocked_after_close :
  forall c pre x post,
    is_closing x = true ->
    let s := final c init (pre ++ [x]) in
    run c init (pre ++ x :: post) = run c init (pre ++ [x]) ++ run c s post /\
    blocked s = true /\
    Forall (ok_after c) (combine post (run c s post)).
Proof.
  intros c pre x post E s.
  pose proof (final_closing c pre x E) as K. fold s in K. split; [|split].
  - change (pre ++ x :: post) with (pre ++ [x] ++ post). rewrite app_assoc. apply run_app.
  - apply K.
  - now apply after_close.
Qed.
Print Assumptions C09_blocked_after_close.

(* the two theorems above combined: every non-exempt member of the generated table *)
Theorem C09_every_member_blocked :
  forall c pre x post m mem o r,
    is_closing x = true ->
    nth_error members m = Some mem -> is_exempt mem = false ->
    In (Api m, (o, r)) (combine post (run c (final c init (pre ++ [x])) post)) ->
    r = RBlocked.
Proof.
  intros c pre x post m mem o r E N X I.
  destruct (C09_blocked_after_close c pre x post E) as (_ & _ & F).
  rewrite Forall_forall in F. specialize (F _ I). simpl in F. destruct F as [_ F].
  apply (F mem N). apply C09_all_members_guarded; [|assumption]. now apply nth_error_In with m.
Qed.
Print Assumptions C09_every_member_blocked.

(* close() can be called again: every call of close in any history returns the same,
   complete task set (session task + every task of every protocol) ... *)
Theorem C09_close_idempotent :
  forall c h o r, In (UserClose, (o, r)) (combine h (run c init h)) -> r = RTasks (full_set c).
Proof. intros c h. exact (close_results c h init (or_introl init_open)). Qed.
Print Assumptions C09_close_idempotent.

(* ... and over a whole history the collaborators are called like this and not otherwise:
   updater start/stop and push deliveries (updates, errors) while open, then - at most once -
   every push updater stopped, the session closed, every protocol closed once, in order; then
   nobody, ever: no updater is started again, nothing is closed twice, and the push listener
   receives neither an update nor an error any more. *)
Theorem C09_close_once_push_stops :
  forall c h,
    exists pre, forallb is_pre pre = true /\
      (calls_only (trace c init h) = pre \/ calls_only (trace c init h) = pre ++ close_calls c).
Proof. intros c h. exact (calls_shape c h init init_open). Qed.
Print Assumptions C09_close_once_push_stops.

(* push updates stop: after a closing event the facade never forwards again, whatever
   follows (start is blocked) *)
Theorem C09_push_never_forwarded_again :
  forall c pre x post, is_closing x = true -> fwd (final c init (pre ++ x :: post)) = false.
Proof.
  intros c pre x post E. change (pre ++ x :: post) with (pre ++ [x] ++ post).
  rewrite app_assoc, final_app.
  apply (final_closed c post _ (final_closing c pre x E)).
Qed.
Print Assumptions C09_push_never_forwarded_again.

(* the error path spelled out: after a closing event everything the push listener could get -
   PushGot false (update) and PushGot true (error) alike - is gone, for every continuation,
   even if it had been scheduled on the loop before *)
Theorem C09_push_listener_silent_after_close :
  forall c pre x post,
    is_closing x = true ->
    calls_only (trace c (final c init (pre ++ [x])) post) = [].
Proof. intros c pre x post E. apply calls_only_closed. now apply final_closing. Qed.
Print Assumptions C09_push_listener_silent_after_close.

(* ---- non-vacuity: concrete, non-trivial instances -------------------------------------- *)

Definition ex_cfg : cfg :=
  {| protos := [ {| dmaplike := false; ntasks := 2 |}; {| dmaplike := true; ntasks := 0 |} ]; mainp := 0 |}.

Example C09_ex_trace :
  trace ex_cfg init [SetListener LLive; PushStart; Lost 1 0; SetListener LLive; Closed 0; UserClose; PushStart] =
    [UpdStart 0; UpdStart 1; UpdStop 0; UpdStop 1; SessClose; ProtoClose 0; ProtoClose 1; Notify (NLost 1 0)].
Proof. vm_compute. reflexivity. Qed.

Example C09_ex_user_close_first :
  notifs (trace ex_cfg init [SetListener LLive; UserClose; Lost 0 1]) = [NClosed] /\
  map snd (run ex_cfg init [UserClose; Lost 0 1; UserClose]) =
    [RTasks [TSess; TProto 0 0; TProto 0 1]; RNone; RTasks [TSess; TProto 0 0; TProto 0 1]].
Proof. split; vm_compute; reflexivity. Qed.

Example C09_ex_error_path :
  trace ex_cfg init [SetListener LLive; PushStart; PostErr 0; PostPlay 1; PostPlay 0; RunLoop; PostErr 0; Lost 0 0; RunLoop; PostErr 0; RunLoop] =
    [UpdStart 0; UpdStart 1; PushGot true 0; PushGot false 0;
     UpdStop 0; UpdStop 1; SessClose; ProtoClose 0; ProtoClose 1; Notify (NLost 0 0)].
Proof. vm_compute. reflexivity. Qed.

Example C09_ex_member : exists m mem, nth_error members m = Some mem /\ is_exempt mem = false.
Proof. exists 1. eexists. split; [reflexivity|]. vm_compute. reflexivity. Qed.
