(* C09 - lemmas.  The model's re-entrant close is first reduced to closed forms
   (close_protos_eq, close_open), then every step is characterised from an open and from
   a closed state (step_open, step_closed); the property theorems are inductions over the
   event list on top of these two lemmas. *)
From Coq Require Import List Arith Bool Lia.
From PV Require Import Common.Cases C09.Spec C09.Gen C09.Model.
Import ListNotations.

(* ---- small list functions used in the statements -------------------------------- *)

Fixpoint notifs (o : list obs) : list notif :=
  match o with
  | [] => []
  | Notify n :: t => n :: notifs t
  | _ :: t => notifs t
  end.

Definition is_notify (x : obs) : bool := match x with Notify _ => true | _ => false end.
Definition is_upd (x : obs) : bool := match x with UpdStart _ | UpdStop _ => true | _ => false end.
(* what may happen while the device object is open: updater start/stop, push deliveries *)
Definition is_pre (x : obs) : bool :=
  match x with UpdStart _ | UpdStop _ | PushGot _ _ => true | _ => false end.
Definition calls_only (o : list obs) : list obs := filter (fun x => negb (is_notify x)) o.

Lemma notifs_app a b : notifs (a ++ b) = notifs a ++ notifs b.
Proof. induction a as [|x a IH]; simpl; [reflexivity|]. destruct x; simpl; now rewrite IH. Qed.

Lemma calls_only_app a b : calls_only (a ++ b) = calls_only a ++ calls_only b.
Proof. unfold calls_only. apply filter_app. Qed.

Lemma notifs_map_start l : notifs (map UpdStart l) = [].
Proof. induction l; simpl; auto. Qed.
Lemma notifs_map_stop l : notifs (map UpdStop l) = [].
Proof. induction l; simpl; auto. Qed.
Lemma calls_only_map_start l : calls_only (map UpdStart l) = map UpdStart l.
Proof. induction l; simpl; [auto|]. now f_equal. Qed.
Lemma calls_only_map_stop l : calls_only (map UpdStop l) = map UpdStop l.
Proof. induction l; simpl; [auto|]. now f_equal. Qed.
Lemma upd_map_start l : forallb is_pre (map UpdStart l) = true.
Proof. induction l; simpl; auto. Qed.
Lemma upd_map_stop l : forallb is_pre (map UpdStop l) = true.
Proof. induction l; simpl; auto. Qed.

(* running the loop: only push deliveries, and none at all when forwarding is off *)
Lemma drain_off c s l : fwd s = false -> flat_map (deliver_q c s) l = [].
Proof.
  intro F. induction l as [|q l IH]; [reflexivity|]. simpl. rewrite IH.
  destruct q; simpl; [rewrite F|]; reflexivity.
Qed.
Lemma notifs_drain c s l : notifs (flat_map (deliver_q c s) l) = [].
Proof.
  induction l as [|q l IH]; [reflexivity|]. simpl. rewrite notifs_app, IH.
  destruct q; simpl; [|reflexivity]. destruct (fwd s && (i =? mainp c)); reflexivity.
Qed.
Lemma calls_only_drain c s l : calls_only (flat_map (deliver_q c s) l) = flat_map (deliver_q c s) l.
Proof.
  induction l as [|q l IH]; [reflexivity|]. simpl. rewrite calls_only_app, IH. f_equal.
  destruct q; simpl; [|reflexivity]. destruct (fwd s && (i =? mainp c)); reflexivity.
Qed.
Lemma pre_drain c s l : forallb is_pre (flat_map (deliver_q c s) l) = true.
Proof.
  induction l as [|q l IH]; [reflexivity|]. simpl. rewrite forallb_app, IH.
  destruct q; simpl; [|reflexivity]. destruct (fwd s && (i =? mainp c)); reflexivity.
Qed.

(* ---- closed forms ------------------------------------------------------------------ *)

Definition closef_of (f : nat) (c : cfg) : st -> st * list obs :=
  fun x => let '(a, b, _) := close_f f c x in (a, b).

Definition count_dm (ps : list pcfg) : nat := length (filter dmaplike ps).

Fixpoint all_tasks (i : nat) (ps : list pcfg) : list task :=
  match ps with
  | [] => []
  | p :: t => proto_tasks i p ++ all_tasks (S i) t
  end.

Definition full_set (c : cfg) : list task := TSess :: all_tasks 0 (protos c).

Definition live_note (l : lkind) (cs : nat) (k : notif) : list obs :=
  if cs =? 0 then match l with LLive => [Notify k] | _ => [] end else [].

Fixpoint protos_obs (l : lkind) (i : nat) (ps : list pcfg) (cs : nat) : list obs :=
  match ps with
  | [] => []
  | p :: t =>
      ProtoClose i :: (if dmaplike p then live_note l cs NClosed else [])
        ++ protos_obs l (S i) t (if dmaplike p then S cs else cs)
  end.

Lemma closef_some f c s t : pending s = Some t -> closef_of f c s = (s, []).
Proof. intro H. unfold closef_of. destruct f; simpl; rewrite H; reflexivity. Qed.

Lemma report_some f c l s k t :
  pending s = Some t ->
  report_with (closef_of f c) l s k = (set_calls s (S (calls s)), live_note l (calls s) k).
Proof.
  intro H. unfold report_with, live_note, max_calls. simpl calls.
  destruct (calls s) as [|n] eqn:E; simpl.
  - assert (P : pending (set_calls s 1) = Some t) by exact H.
    rewrite (closef_some f c _ _ P). destruct l; reflexivity.
  - reflexivity.
Qed.

Lemma close_protos_eq f c l ps : forall i s t,
  pending s = Some t ->
  close_protos (closef_of f c) l i ps s =
    ({| blocked := blocked s; pending := Some (t ++ all_tasks i ps);
        calls := calls s + count_dm ps; fwd := fwd s; lis := lis s; queue := queue s; lstn := lstn s |},
     protos_obs l i ps (calls s)).
Proof.
  induction ps as [|p ps IH]; intros i s t H.
  - simpl. destruct s as [b pe cs fw li qu ls]. simpl in *. subst pe.
    now rewrite app_nil_r, Nat.add_0_r.
  - cbn [close_protos protos_obs all_tasks]. unfold count_dm. cbn [filter].
    destruct (dmaplike p) eqn:D.
    + rewrite (report_some f c l s NClosed t H).
      assert (P : pending (add_pending (set_calls s (S (calls s))) (proto_tasks i p))
                  = Some (t ++ proto_tasks i p)).
      { unfold add_pending. simpl. now rewrite H. }
      rewrite (IH (S i) _ _ P). simpl. f_equal.
      rewrite <- app_assoc. f_equal. unfold count_dm. lia.
    + assert (P : pending (add_pending s (proto_tasks i p)) = Some (t ++ proto_tasks i p)).
      { unfold add_pending. simpl. now rewrite H. }
      rewrite (IH (S i) _ _ P). simpl. f_equal.
      now rewrite <- app_assoc.
Qed.

Definition close_block (c : cfg) (l : lkind) (cs : nat) : list obs :=
  map UpdStop (seq 0 (length (protos c))) ++ SessClose :: protos_obs l 0 (protos c) cs.

Definition closed_state (c : cfg) (cs : nat) (q : list qitem) (l : lkind) : st :=
  {| blocked := true; pending := Some (full_set c); calls := cs + count_dm (protos c);
     fwd := false; lis := false; queue := q; lstn := l |}.

Lemma close_open f c s :
  pending s = None -> blocked s = false ->
  close_f (S f) c s = (closed_state c (calls s) (queue s) (lstn s), close_block c (lstn s) (calls s), RTasks (full_set c)).
Proof.
  intros P B. cbn [close_f]. rewrite P, B.
  change (fun x : st => let '(a, b, _) := close_f f c x in (a, b)) with (closef_of f c).
  erewrite close_protos_eq by reflexivity. reflexivity.
Qed.

(* ---- facts about the close block ----------------------------------------------------- *)

Lemma notifs_protos_obs_pos l ps : forall i cs, cs <> 0 -> notifs (protos_obs l i ps cs) = [].
Proof.
  induction ps as [|p ps IH]; intros i cs H; simpl; [reflexivity|].
  rewrite notifs_app. unfold live_note. destruct cs as [|n]; [contradiction|]. simpl.
  destruct (dmaplike p); simpl; apply IH; discriminate.
Qed.

Lemma notifs_protos_obs_zero l ps : forall i,
  notifs (protos_obs l i ps 0) =
    match l with LLive => firstn 1 (repeat NClosed (count_dm ps)) | _ => [] end.
Proof.
  induction ps as [|p ps IH]; intros i; simpl.
  - destruct l; reflexivity.
  - rewrite notifs_app. unfold count_dm. cbn [filter]. destruct (dmaplike p); simpl.
    + rewrite notifs_protos_obs_pos by discriminate. destruct l; reflexivity.
    + apply IH.
Qed.

Lemma calls_only_protos_obs l ps : forall i cs,
  calls_only (protos_obs l i ps cs) = map ProtoClose (seq i (length ps)).
Proof.
  induction ps as [|p ps IH]; intros i cs; simpl; [reflexivity|].
  f_equal. change (calls_only ((if dmaplike p then live_note l cs NClosed else []) ++
                     protos_obs l (S i) ps (if dmaplike p then S cs else cs)) =
                   map ProtoClose (seq (S i) (length ps))).
  rewrite calls_only_app, IH.
  unfold live_note. destruct (dmaplike p); [|reflexivity].
  destruct (cs =? 0); [|reflexivity]. destruct l; reflexivity.
Qed.

Definition close_calls (c : cfg) : list obs :=
  let n := length (protos c) in
  map UpdStop (seq 0 n) ++ SessClose :: map ProtoClose (seq 0 n).

Lemma calls_only_close_block c l cs : calls_only (close_block c l cs) = close_calls c.
Proof.
  unfold close_block, close_calls. rewrite calls_only_app, calls_only_map_stop.
  f_equal. simpl. f_equal. apply calls_only_protos_obs.
Qed.

Lemma notifs_close_block c l cs :
  notifs (close_block c l cs) =
    if cs =? 0 then match l with LLive => firstn 1 (repeat NClosed (count_dm (protos c))) | _ => [] end
    else [].
Proof.
  unfold close_block. rewrite notifs_app, notifs_map_stop. simpl.
  destruct cs as [|n]; simpl.
  - apply notifs_protos_obs_zero.
  - apply notifs_protos_obs_pos. discriminate.
Qed.

(* ---- states --------------------------------------------------------------------------- *)

Definition is_open (s : st) : Prop := blocked s = false /\ pending s = None /\ calls s = 0.
Definition is_closed (c : cfg) (s : st) : Prop :=
  blocked s = true /\ pending s = Some (full_set c) /\ fwd s = false.
Definition good (c : cfg) (s : st) : Prop := is_open s \/ is_closed c s.

Lemma init_open : is_open init.
Proof. repeat split. Qed.

Lemma closed_state_closed c cs q l : is_closed c (closed_state c cs q l).
Proof. repeat split. Qed.

Definition closedb (s : st) : bool := match pending s with Some _ => true | None => false end.

(* what a report does once the device object is closed *)
Lemma report_closed c s k :
  is_closed c s -> report c s k = (set_calls s (S (calls s)), live_note (lstn s) (calls s) k).
Proof.
  intros (_ & P & _). unfold report, close.
  change (fun x : st => let '(a, b, _) := close_f 2 c x in (a, b)) with (closef_of 2 c).
  now apply report_some with (t := full_set c).
Qed.

(* what the first report does to an open device object *)
Lemma report_open c s k :
  is_open s ->
  report c s k = (closed_state c 1 (queue s) (lstn s),
                  close_block c (lstn s) 1 ++ match lstn s with LLive => [Notify k] | _ => [] end).
Proof.
  intros (B & P & C). unfold report, report_with, max_calls. cbv zeta.
  assert (E : close c (set_calls s (S (calls s))) =
              (closed_state c 1 (queue s) (lstn s), close_block c (lstn s) 1, RTasks (full_set c))).
  { unfold close. rewrite (close_open 1 c (set_calls s (S (calls s))) P B). simpl calls. now rewrite C. }
  simpl calls. rewrite C. change (1 <? 1) with false. cbv iota.
  rewrite C in E. rewrite E.
  destruct (lstn s); try reflexivity; now rewrite app_nil_r.
Qed.

Lemma close_of_open c s :
  is_open s -> close c s = (closed_state c 0 (queue s) (lstn s), close_block c (lstn s) 0, RTasks (full_set c)).
Proof.
  intros (B & P & C). unfold close. rewrite (close_open 1 c s P B). now rewrite C.
Qed.

Lemma close_of_closed c s :
  is_closed c s -> close c s = (s, [], RTasks (full_set c)).
Proof. intros (_ & P & _). unfold close. simpl. now rewrite P. Qed.

(* every step, from an open state *)
Lemma step_open c s e :
  is_open s ->
  match e with
  | Lost i x => step c s e = (closed_state c 1 (queue s) (lstn s),
                  close_block c (lstn s) 1 ++ match lstn s with LLive => [Notify (NLost i x)] | _ => [] end, RNone)
  | Closed i => step c s e = (closed_state c 1 (queue s) (lstn s),
                  close_block c (lstn s) 1 ++ match lstn s with LLive => [Notify NClosed] | _ => [] end, RNone)
  | UserClose => step c s e = (closed_state c 0 (queue s) (lstn s), close_block c (lstn s) 0, RTasks (full_set c))
  | Api m => step c s e = (s, [], match nth_error members m with Some _ => ROk | None => RNone end)
  | PushStart => step c s e = (set_push s true, map UpdStart (seq 0 (length (protos c))), ROk)
  | PushStop => step c s e = (set_push s false, map UpdStop (seq 0 (length (protos c))), ROk)
  | PostPlay i => step c s e = (schedule s false i, [], RNone)
  | PostErr i => step c s e = (schedule s true i, [], RNone)
  | RunLoop => step c s e = (set_queue s [], flat_map (deliver_q c s) (queue s), RNone)
  | SetListener l => step c s e = (set_lstn s l, [], RNone)
  end.
Proof.
  intro O. pose proof O as (B & P & C). destruct e; simpl; try reflexivity.
  - now rewrite (report_open c s _ O).
  - now rewrite (report_open c s _ O).
  - now apply close_of_open.
  - rewrite B. simpl. destruct (nth_error members m); reflexivity.
  - now rewrite B.
  - now rewrite B.
Qed.

(* every step, from a closed state *)
Lemma step_closed c s e :
  is_closed c s ->
  match e with
  | Lost i x => step c s e = (set_calls s (S (calls s)), live_note (lstn s) (calls s) (NLost i x), RNone)
  | Closed i => step c s e = (set_calls s (S (calls s)), live_note (lstn s) (calls s) NClosed, RNone)
  | UserClose => step c s e = (s, [], RTasks (full_set c))
  | Api m => step c s e = (s, [], match nth_error members m with
                                  | Some mem => if protected mem then RBlocked else ROk
                                  | None => RNone end)
  | PushStart | PushStop => step c s e = (s, [], RBlocked)
  | PostPlay i => step c s e = (schedule s false i, [], RNone)
  | PostErr i => step c s e = (schedule s true i, [], RNone)
  | RunLoop => step c s e = (set_queue s [], [], RNone)      (* whatever was scheduled: nothing is delivered *)
  | SetListener l => step c s e = (set_lstn s l, [], RNone)
  end.
Proof.
  intro K. pose proof K as (B & P & F). destruct e; simpl; try reflexivity.
  - now rewrite (report_closed c s _ K).
  - now rewrite (report_closed c s _ K).
  - now apply close_of_closed.
  - rewrite B. simpl. destruct (nth_error members m); reflexivity.
  - now rewrite B.
  - now rewrite B.
  - now rewrite (drain_off c s (queue s) F).
Qed.

Lemma set_calls_closed c s n : is_closed c s -> is_closed c (set_calls s n).
Proof. intros (B & P & F). repeat split; assumption. Qed.

Lemma set_push_open s b : is_open s -> is_open (set_push s b).
Proof. intros (B & P & C). repeat split; assumption. Qed.
Lemma set_queue_open s q : is_open s -> is_open (set_queue s q).
Proof. intros (B & P & C). repeat split; assumption. Qed.
Lemma schedule_open s e i : is_open s -> is_open (schedule s e i).
Proof. apply set_queue_open. Qed.
Lemma set_lstn_open s l : is_open s -> is_open (set_lstn s l).
Proof. intros (B & P & C). repeat split; assumption. Qed.
Lemma set_lstn_closed c s l : is_closed c s -> is_closed c (set_lstn s l).
Proof. intros (B & P & F). repeat split; assumption. Qed.
Lemma set_queue_closed c s q : is_closed c s -> is_closed c (set_queue s q).
Proof. intros (B & P & F). repeat split; assumption. Qed.
Lemma schedule_closed c s e i : is_closed c s -> is_closed c (schedule s e i).
Proof. apply set_queue_closed. Qed.

(* the invariant is preserved; a closing event always ends in a closed state *)
Lemma step_good c s e :
  good c s -> good c (fst (fst (step c s e))).
Proof.
  intros [O | K].
  - pose proof (step_open c s e O) as H. destruct e; rewrite H; simpl;
      try (right; apply closed_state_closed); try (left; assumption);
      left; first [now apply set_push_open | now apply schedule_open | now apply set_queue_open | now apply set_lstn_open].
  - pose proof (step_closed c s e K) as H. right. destruct e; rewrite H; simpl;
      try assumption;
      first [now apply set_calls_closed | now apply schedule_closed | now apply set_queue_closed | now apply set_lstn_closed].
Qed.

Lemma step_closing c s e :
  good c s -> is_closing e = true -> is_closed c (fst (fst (step c s e))).
Proof.
  intros [O | K] E.
  - pose proof (step_open c s e O) as H. destruct e; try discriminate; rewrite H; simpl;
      apply closed_state_closed.
  - pose proof (step_closed c s e K) as H. destruct e; try discriminate; rewrite H; simpl;
      try assumption; now apply set_calls_closed.
Qed.


Lemma step_closed_stays c s e : is_closed c s -> is_closed c (fst (fst (step c s e))).
Proof.
  intro K. pose proof (step_closed c s e K) as H. destruct e; rewrite H; simpl;
    try assumption;
    first [now apply set_calls_closed | now apply schedule_closed | now apply set_queue_closed | now apply set_lstn_closed].
Qed.

(* ---- run / final / trace plumbing ------------------------------------------------------ *)

Lemma run_cons c s e t :
  run c s (e :: t) = (snd (fst (step c s e)), snd (step c s e)) :: run c (fst (fst (step c s e))) t.
Proof. simpl. destruct (step c s e) as [[s' o] r]. reflexivity. Qed.

Lemma final_cons c s e t : final c s (e :: t) = final c (fst (fst (step c s e))) t.
Proof. simpl. destruct (step c s e) as [[s' o] r]. reflexivity. Qed.

Lemma trace_cons c s e t :
  trace c s (e :: t) = snd (fst (step c s e)) ++ trace c (fst (fst (step c s e))) t.
Proof. unfold trace. rewrite run_cons. reflexivity. Qed.

Lemma run_app c : forall a s b, run c s (a ++ b) = run c s a ++ run c (final c s a) b.
Proof.
  induction a as [|e a IH]; intros s b; [reflexivity|].
  rewrite <- app_comm_cons, !run_cons, final_cons, IH. reflexivity.
Qed.

Lemma final_app c : forall a s b, final c s (a ++ b) = final c (final c s a) b.
Proof.
  induction a as [|e a IH]; intros s b; [reflexivity|].
  rewrite <- app_comm_cons, !final_cons. apply IH.
Qed.

Lemma run_length c : forall h s, length (run c s h) = length h.
Proof. induction h as [|e h IH]; intro s; [reflexivity|]. rewrite run_cons. simpl. now rewrite IH. Qed.

Lemma final_good c : forall h s, good c s -> good c (final c s h).
Proof.
  induction h as [|e h IH]; intros s G; [assumption|].
  rewrite final_cons. apply IH. now apply step_good.
Qed.

Lemma final_closed c : forall h s, is_closed c s -> is_closed c (final c s h).
Proof.
  induction h as [|e h IH]; intros s G; [assumption|].
  rewrite final_cons. apply IH. now apply step_closed_stays.
Qed.

Lemma final_closing c pre x :
  is_closing x = true -> is_closed c (final c init (pre ++ [x])).
Proof.
  intro E. rewrite final_app. simpl final.
  pose proof (final_good c pre init (or_introl init_open)) as G.
  pose proof (step_closing c _ x G E) as K.
  destruct (step c (final c init pre) x) as [[s' o] r]. exact K.
Qed.

(* ---- notifications: at most one, the first one reported ---------------------------------- *)

Definition expected (c : cfg) (l : lkind) (closed : bool) (h : list ev) : list notif :=
  heard (reported (count_dm (protos c)) closed l h).

Lemma notifs_live_note l cs k :
  notifs (live_note l cs k) = if cs =? 0 then match l with LLive => [k] | _ => [] end else [].
Proof. unfold live_note. destruct (cs =? 0); [destruct l|]; reflexivity. Qed.

Lemma notifs_closed c : forall h s,
  is_closed c s ->
  notifs (trace c s h) = if calls s =? 0 then expected c (lstn s) true h else [].
Proof.
  induction h as [|e h IH]; intros s K.
  - unfold expected. simpl. destruct (calls s =? 0); [destruct (lstn s)|]; reflexivity.
  - rewrite trace_cons, notifs_app.
    pose proof (step_closed c s e K) as H.
    pose proof (step_closed_stays c s e K) as K'.
    specialize (IH _ K').
    destruct e; rewrite H in *; simpl fst in *; simpl snd in *; rewrite IH; clear IH.
    + rewrite notifs_live_note. simpl calls. unfold expected.
      destruct (calls s =? 0); [|reflexivity]. destruct (lstn s); reflexivity.
    + rewrite notifs_live_note. simpl calls. unfold expected.
      destruct (calls s =? 0); [|reflexivity]. destruct (lstn s); reflexivity.
    + reflexivity.
    + reflexivity.
    + reflexivity.
    + reflexivity.
    + reflexivity.
    + reflexivity.
    + reflexivity.
    + reflexivity.
Qed.

Lemma firstn1_repeat_app {A} (x : A) n l :
  firstn 1 (repeat x n ++ l) = if n =? 0 then firstn 1 l else [x].
Proof. destruct n; reflexivity. Qed.

Lemma notifs_open c : forall h s,
  is_open s -> notifs (trace c s h) = expected c (lstn s) false h.
Proof.
  induction h as [|e h IH]; intros s O.
  - unfold expected. destruct (lstn s); reflexivity.
  - rewrite trace_cons, notifs_app.
    pose proof (step_open c s e O) as H.
    destruct e; rewrite H; simpl fst; simpl snd.
    + rewrite (notifs_closed c h _ (closed_state_closed c 1 _ _)). simpl.
      rewrite notifs_app, notifs_close_block. simpl. unfold expected.
      destruct (lstn s); reflexivity.
    + rewrite (notifs_closed c h _ (closed_state_closed c 1 _ _)). simpl.
      rewrite notifs_app, notifs_close_block. simpl. unfold expected.
      destruct (lstn s); reflexivity.
    + rewrite (notifs_closed c h _ (closed_state_closed c 0 _ _)). simpl calls.
      rewrite notifs_close_block. simpl. unfold expected. simpl reported.
      destruct (lstn s); destruct (count_dm (protos c)) as [|n]; reflexivity.
    + simpl. now apply IH.
    + rewrite notifs_map_start. simpl. apply IH. now apply set_push_open.
    + rewrite notifs_map_stop. simpl. apply IH. now apply set_push_open.
    + simpl. apply IH. now apply schedule_open.
    + simpl. apply IH. now apply schedule_open.
    + rewrite notifs_drain. simpl. apply IH. now apply set_queue_open.
    + simpl. rewrite IH by now apply set_lstn_open. reflexivity.
Qed.

(* ---- after close: blocked, silent, idempotent ---------------------------------------------- *)

(* what the property demands of one (event, output) pair once the device object is closed *)
Definition ok_after (c : cfg) (x : ev * (list obs * res)) : Prop :=
  let '(e, (o, r)) := x in
  match e with
  | Api m => o = [] /\ forall mem, nth_error members m = Some mem -> protected mem = true -> r = RBlocked
  | PushStart | PushStop => o = [] /\ r = RBlocked
  | UserClose => o = [] /\ r = RTasks (full_set c)
  | Lost _ _ | Closed _ => calls_only o = [] /\ r = RNone
  | PostPlay _ | PostErr _ => o = [] /\ r = RNone
  | RunLoop => o = [] /\ r = RNone        (* nothing reaches the push listener, whatever was scheduled *)
  | SetListener _ => o = [] /\ r = RNone
  end.

Lemma after_close c : forall h s,
  is_closed c s -> Forall (ok_after c) (combine h (run c s h)).
Proof.
  induction h as [|e h IH]; intros s K; [constructor|].
  rewrite run_cons. simpl combine. constructor.
  - pose proof (step_closed c s e K) as H. destruct e; rewrite H; simpl; split; try reflexivity.
    + unfold live_note. destruct (calls s =? 0); [destruct (lstn s)|]; reflexivity.
    + unfold live_note. destruct (calls s =? 0); [destruct (lstn s)|]; reflexivity.
    + intros mem E P. rewrite E, P. reflexivity.
  - apply IH. now apply step_closed_stays.
Qed.

Lemma calls_only_closed c : forall h s, is_closed c s -> calls_only (trace c s h) = [].
Proof.
  induction h as [|e h IH]; intros s K; [reflexivity|].
  rewrite trace_cons, calls_only_app, (IH _ (step_closed_stays c s e K)), app_nil_r.
  pose proof (step_closed c s e K) as H. destruct e; rewrite H; simpl; try reflexivity;
    unfold live_note; destruct (calls s =? 0); try reflexivity; destruct (lstn s); reflexivity.
Qed.

(* all calls to collaborators over a whole history: updater start/stop while open, then
   exactly one close block, then nothing *)
Lemma calls_shape c : forall h s,
  is_open s ->
  exists pre, forallb is_pre pre = true /\
    (calls_only (trace c s h) = pre \/ calls_only (trace c s h) = pre ++ close_calls c).
Proof.
  induction h as [|e h IH]; intros s O.
  - exists []. split; [reflexivity|]. now left.
  - rewrite trace_cons, calls_only_app.
    pose proof (step_open c s e O) as H.
    destruct e; rewrite H; simpl fst; simpl snd.
    + exists []. split; [reflexivity|]. right.
      rewrite (calls_only_closed c h _ (closed_state_closed c 1 _ _)), app_nil_r.
      rewrite calls_only_app, calls_only_close_block. destruct (lstn s); simpl; now rewrite app_nil_r.
    + exists []. split; [reflexivity|]. right.
      rewrite (calls_only_closed c h _ (closed_state_closed c 1 _ _)), app_nil_r.
      rewrite calls_only_app, calls_only_close_block. destruct (lstn s); simpl; now rewrite app_nil_r.
    + exists []. split; [reflexivity|]. right.
      rewrite (calls_only_closed c h _ (closed_state_closed c 0 _ _)), app_nil_r.
      apply calls_only_close_block.
    + simpl. now apply IH.
    + destruct (IH _ (set_push_open s true O)) as (pre & U & D).
      exists (map UpdStart (seq 0 (length (protos c))) ++ pre). split.
      * rewrite forallb_app, upd_map_start, U. reflexivity.
      * rewrite calls_only_map_start. destruct D as [D | D]; rewrite D; [now left | right].
        now rewrite app_assoc.
    + destruct (IH _ (set_push_open s false O)) as (pre & U & D).
      exists (map UpdStop (seq 0 (length (protos c))) ++ pre). split.
      * rewrite forallb_app, upd_map_stop, U. reflexivity.
      * rewrite calls_only_map_stop. destruct D as [D | D]; rewrite D; [now left | right].
        now rewrite app_assoc.
    + simpl. apply IH. now apply schedule_open.
    + simpl. apply IH. now apply schedule_open.
    + destruct (IH _ (set_queue_open s [] O)) as (pre & U & D).
      exists (flat_map (deliver_q c s) (queue s) ++ pre). split.
      * rewrite forallb_app, pre_drain, U. reflexivity.
      * rewrite calls_only_drain. destruct D as [D | D]; rewrite D; [now left | right].
        now rewrite app_assoc.
    + simpl. apply IH. now apply set_lstn_open.
Qed.

(* every user close returns the same, complete task set *)
Lemma close_results c : forall h s,
  good c s -> forall o r, In (UserClose, (o, r)) (combine h (run c s h)) -> r = RTasks (full_set c).
Proof.
  induction h as [|e h IH]; intros s G o r I; [destruct I|].
  rewrite run_cons in I. simpl in I. destruct I as [I | I].
  - inversion I as [[E1 E2 E3]]. subst e. destruct G as [O | K].
    + now rewrite (step_open c s UserClose O).
    + now rewrite (step_closed c s UserClose K).
  - apply (IH _ (step_good c s e G) o r I).
Qed.
