(* C02 - from the strict HTTP parsers (laws proved) to the code as written (any integer
   Content-Length): on every stream the strict parser reads without failure, both do the same. *)
From Coq Require Import NArith ZArith List Bool Arith Lia.
From PV Require Import Common.Cases Common.Framing Common.Endian C02.Model C02.ProofsBase C02.ProofsLayer.
Import ListNotations.
Local Open Scope N_scope.

Section Strict.
  Variables (S M : Type).
  Variables p q : S -> bytes -> step N S M err.
  Hypothesis agree : forall s x, (forall e, q s x <> Fail e) -> p s x = q s x.
  Hypothesis stable : forall s x m s' r y, q s x = Frame m s' r -> q s (x ++ y) = Frame m s' (r ++ y).
  Hypothesis progress : forall s x m s' r, q s x = Frame m s' r -> (length r < length x)%nat.
  Hypothesis failpfx : forall s x y e, q s x = Fail e -> exists e', q s (x ++ y) = Fail e'.

  Lemma seg_via_strict : forall chunks s,
    (forall ms e, run q s (concat chunks) <> Failed ms e) ->
    feeds p s [] chunks = run p s (concat chunks) /\ run p s (concat chunks) = run q s (concat chunks).
  Proof.
    intros chunks s NF.
    pose proof (feed_chunks _ _ _ _ q stable progress failpfx chunks s [] eq_refl NF) as FQ.
    cbn [app] in FQ.
    destruct (run q s (concat chunks)) as [ms s' r|ms e|] eqn:R.
    - rewrite (feeds_agree _ _ p q agree _ _ _ _ _ _ FQ), (run_agree _ _ p q agree _ _ _ _ _ R). auto.
    - exfalso. eapply NF. reflexivity.
    - exfalso. revert R. unfold run. apply drain_fuel; [exact progress|apply le_n].
  Qed.

  Variable SA : Type.
  Variable pa : SA -> bytes -> step N SA bytes err.
  Variable guard : bool.
  Hypothesis a_stable : forall s x m s' r y, pa s x = Frame m s' r -> pa s (x ++ y) = Frame m s' (r ++ y).
  Hypothesis a_progress : forall s x m s' r, pa s x = Frame m s' r -> (length r < length x)%nat.
  Hypothesis a_failpfx : forall s x y e, pa s x = Fail e -> exists e', pa s (x ++ y) = Fail e'.

  Lemma layered_via_strict : forall chunks sa sb ms sa2 ra2 sb2 rb2,
    lwhole _ _ _ pa q sa [] sb [] (concat chunks) = LOut ms sa2 ra2 sb2 rb2 ->
    lfeeds _ _ _ pa p guard sa [] sb [] chunks = LOut ms sa2 ra2 sb2 rb2 /\
    lwhole _ _ _ pa p sa [] sb [] (concat chunks) = LOut ms sa2 ra2 sb2 rb2.
  Proof.
    intros chunks sa sb ms sa2 ra2 sb2 rb2 W. split.
    - apply (lfeeds_agree _ _ _ pa p q guard agree).
      apply (lfeeds_whole _ _ _ pa q guard a_stable a_progress a_failpfx stable progress failpfx); auto.
    - unfold lwhole in *. destruct (run pa sa ([] ++ concat chunks)) as [ps sa' ra'| |]; try discriminate.
      destruct (run q sb ([] ++ concat ps)) as [ms' sb' rb'| |] eqn:R; try discriminate.
      now rewrite (run_agree _ _ p q agree _ _ _ _ _ R).
  Qed.
End Strict.
