(* C02 - the receive loops of pyatv as frame parsers (instances of Common/Framing.v).

   Every `*_p1` below is "try to take ONE message from the front of the buffer" as the loop
   body of the corresponding data_received / handle_received / decrypt does it; `Framing.run`
   is the `while buffer:` loop around it and `Framing.feeds` a sequence of data_received calls.

     mrp_p1        pyatv/protocols/mrp/connection.py      MrpConnection.data_received + read_variant
     comp_p1       pyatv/protocols/companion/connection.py CompanionConnection.data_received
     hap_p1        pyatv/auth/hap_session.py               HAPSession.decrypt
     ds_p1         pyatv/protocols/airplay/channels.py     DataStreamChannel.decode_message/handle_received
     httpc_p1      pyatv/support/http.py                   HttpConnection.data_received (parse_response)
     httpd_p1      pyatv/support/http.py                   BasicHttpServer.data_received (parse_request)
     ev_p1         pyatv/protocols/airplay/channels.py     EventChannel.handle_received (parse_request)
     lfeeds        pyatv/auth/hap_channel.py               AbstractHAPChannel.data_received: decrypt, then
                                                           the channel's own loop on the plaintext buffer
                                                           (also HttpConnection with receive_processor)

   Libraries are Section variables: the ChaCha20-Poly1305 decryption (`dec`), protobuf parsing
   (`pb_ok`), UTF-8 validity of a header block (`utf8_ok`), the two first-line regular expressions
   (`resp_first_ok`, `req_first_ok`), the data-stream payload handler (`ds_handler_ok`) and the
   Companion FrameType enum (`known_type`).  No proofs in this file. *)
From Coq Require Import NArith ZArith List Bool Arith Lia.
From PV Require Import Common.Cases Common.Framing Common.Endian.
Import ListNotations.
Local Open Scope N_scope.

Notation bytes := (list N).

Arguments Need {B S M E}.
Arguments Fail {B S M E} e.
Arguments Frame {B S M E} m s' rest.
Arguments Out {B S M E} ms s buf.
Arguments Failed {B S M E} ms e.
Arguments OutOfFuel {B S M E}.
Arguments drain {B S M E} p1 fuel s buf.
Arguments run {B S M E} p1 s buf.
Arguments feeds {B S M E} p1 s buf chunks.

(* exceptions that leave a loop body *)
Inductive err :=
| EInvalidTag          (* cryptography.exceptions.InvalidTag out of HAPSession.decrypt *)
| EProtocolError       (* data-stream header.size < 32 *)
| EHandler             (* the data-stream payload handler raised *)
| EUnicode             (* header block is not UTF-8 *)
| EIndexError          (* header line without ": " *)
| EIntValue            (* int(Content-Length) raised ValueError *)
| ENegativeLength      (* only in the *_nn parsers: a negative Content-Length is refused (see there) *)
| EContentLength       (* Content-Length with a non-ASCII byte: Unicode digits/spaces are not modelled *)
| EBadFirstLine        (* first line does not match the regular expression: ValueError *)
| EBlankFirstLine.     (* request with an empty first line (event channel only, see ev_p1) *)

Definition err_eqb (a b : err) : bool :=
  match a, b with
  | EInvalidTag, EInvalidTag | EProtocolError, EProtocolError | EHandler, EHandler
  | EUnicode, EUnicode | EIndexError, EIndexError | EContentLength, EContentLength
  | EIntValue, EIntValue | ENegativeLength, ENegativeLength
  | EBadFirstLine, EBadFirstLine | EBlankFirstLine, EBlankFirstLine => true
  | _, _ => false
  end.

Definition len (l : bytes) : N := N.of_nat (length l).
Definition take (n : N) (l : bytes) : bytes := firstn (N.to_nat n) l.
Definition drop (n : N) (l : bytes) : bytes := skipn (N.to_nat n) l.

(* ------------------------------------------------------------------ MRP *)

(* pyatv/support/variant.py read_variant; None = ValueError("invalid variant") *)
Fixpoint read_var (l : bytes) (mul acc : N) : option (N * bytes) :=
  match l with
  | [] => None
  | b :: t =>
      let acc' := acc + (b mod 128) * mul in
      if b <? 128 then Some (acc', t) else read_var t (mul * 128) acc'
  end.
Definition read_variant (l : bytes) := read_var l 1 0.

(* what _handle_message did with one frame: the listener got `data` (decrypted), or the
   exception (InvalidTag, DecodeError, listener error) was logged and swallowed *)
Inductive mrp_msg := MDelivered (data : bytes) | MSwallowed (raw : bytes).

Section Mrp.
  (* Chacha20Cipher8byteNonce.decrypt(data) when the input counter is n; None = InvalidTag.
     The counter is incremented before the AEAD call, i.e. also when it raises. *)
  Variable dec : N -> bytes -> option bytes.
  (* ProtocolMessage.ParseFromString and the listener return normally *)
  Variable pb_ok : bytes -> bool.

  (* None = encryption not enabled, Some n = input counter *)
  Definition mrp_state := option N.

  Definition mrp_handle (s : mrp_state) (data : bytes) : mrp_msg * mrp_state :=
    match s with
    | None => (if pb_ok data then MDelivered data else MSwallowed data, None)
    | Some c =>
        match dec c data with
        | None => (MSwallowed data, Some (c + 1))
        | Some p => (if pb_ok p then MDelivered p else MSwallowed data, Some (c + 1))
        end
    end.

  Definition mrp_p1 (s : mrp_state) (buf : bytes) : step N mrp_state mrp_msg err :=
    match read_variant buf with
    | None => Need                                   (* except ValueError: break *)
    | Some (n, raw) =>
        if len raw <? n then Need                    (* if len(raw) < length: break *)
        else let '(m, s') := mrp_handle s (take n raw) in
             Frame m s' (drop n raw)
    end.
End Mrp.

(* ------------------------------------------------------------------ Companion *)

Inductive comp_msg := CFrame (ftype : N) (payload : bytes) | CSwallowed (header payload : bytes).

Section Companion.
  (* Chacha20Cipher(nonce_length=12).decrypt(payload, aad=header) with input counter n *)
  Variable dec : N -> bytes -> bytes -> option bytes.
  (* FrameType(value) does not raise ValueError *)
  Variable known_type : N -> bool.

  Definition comp_state := option N.

  Definition comp_deliver (header p : bytes) : comp_msg :=
    if known_type (hd 0 header) then CFrame (hd 0 header) p else CSwallowed header p.

  Definition comp_handle (s : comp_state) (header payload : bytes) : comp_msg * comp_state :=
    match s, payload with
    | Some c, _ :: _ =>                              (* if self._chacha and len(payload) > 0 *)
        match dec c header payload with
        | None => (CSwallowed header payload, Some (c + 1))
        | Some p => (comp_deliver header p, Some (c + 1))
        end
    | _, _ => (comp_deliver header payload, s)
    end.

  Definition comp_p1 (s : comp_state) (buf : bytes) : step N comp_state comp_msg err :=
    if len buf <? 4 then Need                        (* while len(self._buffer) >= HEADER_LENGTH *)
    else
      let plen := be_dec (firstn 3 (skipn 1 buf)) + 4 in
      if len buf <? plen then Need
      else
        let header := firstn 4 buf in
        let payload := skipn 4 (take plen buf) in    (* self._buffer[HEADER_LENGTH:payload_length] *)
        let '(m, s') := comp_handle s header payload in
        Frame m s' (drop plen buf)
  .
End Companion.

(* ------------------------------------------------------------------ HAP session *)

Section Hap.
  (* Chacha20Cipher(nonce_length=8).decrypt(block, aad=length) with input counter n *)
  Variable dec : N -> bytes -> bytes -> option bytes.

  (* one block of HAPSession.decrypt; the state is the input counter; the message is the
     plaintext of the block *)
  Definition hap_p1 (c : N) (buf : bytes) : step N N bytes err :=
    let lenb := firstn 2 buf in                      (* self._encrypted_data[0:2], may be 1 byte *)
    let blen := le_dec lenb + 16 in
    if len buf <? blen + 2 then Need                 (* return output *)
    else
      match dec c lenb (take blen (skipn 2 buf)) with
      | None => Fail EInvalidTag                     (* escapes decrypt and data_received *)
      | Some p => Frame p (c + 1) (drop (blen + 2) buf)
      end.
End Hap.

(* ------------------------------------------------------------------ data stream channel *)

Record ds_msg := { ds_type : bytes; ds_cmd : bytes; ds_seqno : N; ds_pad : N; ds_payload : bytes }.

Section DataStream.
  (* decode_payload / _process_payload / the reply return normally for this message *)
  Variable ds_handler_ok : ds_msg -> bool.

  Definition ds_p1 (s : unit) (buf : bytes) : step N unit ds_msg err :=
    if len buf <? 32 then Need                       (* while len(self.buffer) >= DataHeader.length *)
    else
      let size := be_dec (firstn 4 buf) in
      if size <? 32 then Fail EProtocolError
      else if len buf <? size then Need
      else
        let m := {| ds_type := firstn 12 (skipn 4 buf);
                    ds_cmd := firstn 4 (skipn 16 buf);
                    ds_seqno := be_dec (firstn 8 (skipn 20 buf));
                    ds_pad := be_dec (firstn 4 (skipn 28 buf));
                    ds_payload := skipn 32 (take size buf) |} in
        if ds_handler_ok m then Frame m tt (drop size buf) else Fail EHandler.
End DataStream.

(* ------------------------------------------------------------------ HTTP *)

Definition CRLF : bytes := [13; 10].
Definition CRLF2 : bytes := [13; 10; 13; 10].
Definition COLSP : bytes := [58; 32].
(* "Content-Length" *)
Definition CONTENT_LENGTH : bytes := [67;111;110;116;101;110;116;45;76;101;110;103;116;104].

Fixpoint prefixb (p l : bytes) : bool :=
  match p, l with
  | [], _ => true
  | a :: p', b :: l' => (a =? b) && prefixb p' l'
  | _ :: _, [] => false
  end.

(* first occurrence of sep: (before, after) *)
Fixpoint find_sep (sep l : bytes) : option (bytes * bytes) :=
  if prefixb sep l then Some ([], skipn (length sep) l)
  else match l with
       | [] => None
       | b :: t => match find_sep sep t with
                   | Some (a, r) => Some (b :: a, r)
                   | None => None
                   end
       end.

(* Python's x.split(sep) *)
Fixpoint split_on (fuel : nat) (sep l : bytes) : list bytes :=
  match fuel with
  | O => [l]
  | S f => match find_sep sep l with
           | None => [l]
           | Some (a, r) => a :: split_on f sep r
           end
  end.
Definition split_lines (l : bytes) : list bytes := split_on (length l) CRLF l.

Definition lowerb (b : N) : N := if (65 <=? b) && (b <=? 90) then b + 32 else b.
Definition ci_eqb (a b : bytes) : bool := bytes_beq (map lowerb a) (map lowerb b).

(* requests.structures.CaseInsensitiveDict built from (key, value) pairs: one entry per
   lower-cased key, at the position of its first insertion, holding the last key spelling/value *)
Fixpoint cid_set (d : list (bytes * bytes)) (k v : bytes) : list (bytes * bytes) :=
  match d with
  | [] => [(k, v)]
  | (k', v') :: t => if ci_eqb k' k then (k, v) :: t else (k', v') :: cid_set t k v
  end.
Definition cid_of (kvs : list (bytes * bytes)) : list (bytes * bytes) :=
  fold_left (fun d kv => cid_set d (fst kv) (snd kv)) kvs [].
Fixpoint cid_get (d : list (bytes * bytes)) (k : bytes) : option bytes :=
  match d with
  | [] => None
  | (k', v) :: t => if ci_eqb k' k then Some v else cid_get t k
  end.

(* _key_value: line.split(": ", maxsplit=1); None = IndexError *)
Fixpoint key_values (lines : list bytes) : option (list (bytes * bytes)) :=
  match lines with
  | [] => Some []
  | l :: t => match find_sep COLSP l, key_values t with
              | Some kv, Some r => Some (kv :: r)
              | _, _ => None
              end
  end.

Definition nonempty (l : bytes) : bool := match l with [] => false | _ => true end.

(* Python's int(str) in base 10 on an ASCII string: surrounding whitespace (\t \n \v \f \r space)
   is stripped, one optional sign, then digits with single underscores BETWEEN digits.
   None = ValueError. *)
Definition is_ws (b : N) : bool := ((9 <=? b) && (b <=? 13)) || (b =? 32).
Definition is_digit (b : N) : bool := (48 <=? b) && (b <=? 57).
Fixpoint lstrip (l : bytes) : bytes :=
  match l with
  | b :: t => if is_ws b then lstrip t else l
  | [] => []
  end.
Definition strip (l : bytes) : bytes := rev (lstrip (rev (lstrip l))).

(* prev = the previous character was a digit *)
Fixpoint digits_us (l : bytes) (acc : N) (prev : bool) : option N :=
  match l with
  | [] => if prev then Some acc else None
  | b :: t => if is_digit b then digits_us t (acc * 10 + (b - 48)) true
              else if (b =? 95) && prev then digits_us t acc false
              else None
  end.

Definition parse_int (v : bytes) : option Z :=
  match strip v with
  | 45 :: t => option_map (fun n => (- Z.of_N n)%Z) (digits_us t 0 false)
  | 43 :: t => option_map Z.of_N (digits_us t 0 false)
  | t => option_map Z.of_N (digits_us t 0 false)
  end.

(* int(msg_headers.get("Content-Length", 0)) *)
Inductive clres := CLInt (z : Z) | CLValueError | CLUnmodelled.
Definition parse_cl (v : bytes) : clres :=
  if existsb (fun b => 128 <=? b) v then CLUnmodelled
  else match parse_int v with Some z => CLInt z | None => CLValueError end.

(* Python slicing l[0:z] and l[z:] for an arbitrary integer bound: a negative bound counts from
   the end and is clamped at 0, a bound beyond the end is clamped at the end *)
Definition py_index (n : nat) (z : Z) : nat :=
  if (z <? 0)%Z then Z.to_nat (Z.max 0 (Z.of_nat n + z)) else Z.to_nat z.
Definition py_to (z : Z) (l : bytes) : bytes := firstn (py_index (length l) z) l.
Definition py_from (z : Z) (l : bytes) : bytes := skipn (py_index (length l) z) l.

(* (first line, headers, body) *)
Definition http_msg := (bytes * list (bytes * bytes) * bytes)%type.

Inductive hres := HNeed | HFail (e : err) | HMsg (first : bytes) (hdrs : list (bytes * bytes)) (body rest : bytes).

(* the same parser with every delivered message decorated *)
Definition step_map {S M M'} (g : M -> M') (st : step N S M err) : step N S M' err :=
  match st with
  | Need => Need
  | Fail e => Fail e
  | Frame m s' rest => Frame (g m) s' rest
  end.

(* The layer above as an input of the receive loops.  MrpConnection and CompanionConnection call
   their listener inside the per-frame try/except: a listener that raises is logged and the loop
   goes on, so it changes neither the parser state nor the rest of the buffer.  What the layer
   above saw of one frame: the message it was handed and whether it returned normally, or nothing
   (the frame could not be decrypted / decoded / has an unknown type).
   (pb_ok of mrp_p1 is the decode step alone here.)
   DataStreamChannel._process_payload does the same around listener.handle_protobuf for every
   protobuf message of a frame (dsc_p1 below); ds_handler_ok keeps the steps that have no barrier
   (decode_payload, message.get on a non-dict plist, sending the reply). *)
Inductive mrp_seen := MHanded (data : bytes) (returned : bool) | MNotHanded.
Definition mrp_consume (consumer : bytes -> bool) (m : mrp_msg) : mrp_seen :=
  match m with MDelivered d => MHanded d (consumer d) | MSwallowed _ => MNotHanded end.
Definition mrpc_p1 dec pb_ok (consumer : bytes -> bool) (s : mrp_state) (buf : bytes) :=
  step_map (mrp_consume consumer) (mrp_p1 dec pb_ok s buf).

Inductive comp_seen := CHanded (ftype : N) (payload : bytes) (returned : bool) | CNotHanded.
Definition comp_consume (consumer : N -> bytes -> bool) (m : comp_msg) : comp_seen :=
  match m with CFrame t p => CHanded t p (consumer t p) | CSwallowed _ _ => CNotHanded end.
Definition compc_p1 dec known_type (consumer : N -> bytes -> bool) (s : comp_state) (buf : bytes) :=
  step_map (comp_consume consumer) (comp_p1 dec known_type s buf).

(* What the layer above saw of one data stream frame: the protobuf messages of its payload in
   order, each with "the listener returned normally", and whether the channel answered the frame
   (a `sync` frame gets a `rply` with its seqno - also when the listener raised). *)
Record ds_seen := { dsn_frame : ds_msg; dsn_handed : list (bytes * bool); dsn_reply : bool }.
Definition SYNC : bytes := [115; 121; 110; 99].
Definition ds_consume (pbs_of : bytes -> list bytes) (consumer : bytes -> bool) (m : ds_msg) : ds_seen :=
  {| dsn_frame := m;
     dsn_handed := map (fun pb => (pb, consumer pb)) (pbs_of (ds_payload m));
     dsn_reply := prefixb SYNC (ds_type m) |}.
(* pbs_of = decode_payload, params.data, decode_protobufs (library steps) *)
Definition dsc_p1 handler_ok (pbs_of : bytes -> list bytes) (consumer : bytes -> bool) (s : unit) (buf : bytes) :=
  step_map (ds_consume pbs_of consumer) (ds_p1 handler_ok s buf).

(* BasicHttpServer: what handler.handle_request(request) does, and what the server then writes *)
Inductive hout := HResponse | HRaises | HNothing.   (* returns a response / raises / returns None *)
Inductive answer := AHandler | A500 | A404.         (* the handler's response / 500 / 404 *)
Definition answer_of (h : hout) : answer :=
  match h with HResponse => AHandler | HRaises => A500 | HNothing => A404 end.

Section Http.
  Variable utf8_ok : bytes -> bool.        (* header_str.decode("utf-8") succeeds *)
  Variable resp_first_ok : bytes -> bool.  (* the status-line regular expression of parse_response matches *)
  Variable req_first_ok : bytes -> bool.   (* the request-line regular expression of parse_request matches *)

  Definition content_length (d : list (bytes * bytes)) : clres :=
    match cid_get d CONTENT_LENGTH with None => CLInt 0 | Some v => parse_cl v end.

  (* _parse_http_message (text decoding of the body ignored).  strict = false is the code as
     written: ANY integer is accepted as content length and the two slices follow Python's rules.
     strict = true additionally refuses a negative length (ENegativeLength); it is the parser the
     segmentation laws are proved for - with a negative length the extent of the "body" depends on
     how much data happens to be buffered, so such a stream is not a valid stream. *)
  Definition parse_http_message_gen (strict : bool) (msg : bytes) : hres :=
    match find_sep CRLF2 msg with
    | None => HNeed                                            (* except ValueError: return None,... *)
    | Some (hs, body) =>
        if negb (utf8_ok hs) then HFail EUnicode
        else
          let lines := split_lines hs in
          match key_values (filter nonempty (tl lines)) with
          | None => HFail EIndexError
          | Some kvs =>
              let d := cid_of kvs in
              match content_length d with
              | CLValueError => HFail EIntValue                (* int() raises ValueError *)
              | CLUnmodelled => HFail EContentLength
              | CLInt cl =>
                  if strict && (cl <? 0)%Z then HFail ENegativeLength
                  else if (Z.of_N (len body) <? cl)%Z then HNeed   (* len(body) < content_length *)
                  else HMsg (hd [] lines) d (py_to cl body) (py_from cl body)
              end
          end
    end.
  Definition parse_http_message := parse_http_message_gen false.

  (* HttpConnection.data_received: parse_response; ValueError escapes *)
  Definition httpc_gen (strict : bool) (s : unit) (buf : bytes) : step N unit http_msg err :=
    match parse_http_message_gen strict buf with
    | HNeed => Need
    | HFail e => Fail e
    | HMsg first d body rest =>
        if resp_first_ok first then Frame (first, d, body) tt rest else Fail EBadFirstLine
    end.
  Definition httpc_p1 := httpc_gen false.
  Definition httpc_p1_nn := httpc_gen true.

  (* parse_request: `if not first_line: return None, rest` also fires on an EMPTY first line,
     in which case `rest` is what follows the (complete) message: RSkip *)
  Inductive rres := RNeed | RFail (e : err) | RSkip (rest : bytes) | RFrame (m : http_msg) (rest : bytes).

  Definition parse_request_gen (strict : bool) (buf : bytes) : rres :=
    match parse_http_message_gen strict buf with
    | HNeed => RNeed
    | HFail e => RFail e
    | HMsg first d body rest =>
        match first with
        | [] => RSkip rest
        | _ => if req_first_ok first then RFrame (first, d, body) rest else RFail EBadFirstLine
        end
    end.
  Definition parse_request := parse_request_gen false.

  (* BasicHttpServer: `if not request: return data` - a blank first line is "no request", the
     buffer is returned unchanged and the `rest == buffer` guard stops the loop: Need.
     A parse exception is answered with 500 and `rest = b""` (Fail, see httpd_loop). *)
  Definition httpd_gen (strict : bool) (s : unit) (buf : bytes) : step N unit http_msg err :=
    match parse_request_gen strict buf with
    | RNeed | RSkip _ => Need
    | RFail e => Fail e
    | RFrame m rest => Frame m tt rest
    end.
  Definition httpd_p1 := httpd_gen false.
  Definition httpd_p1_nn := httpd_gen true.

  (* EventChannel.handle_received: a blank first line assigns self.buffer = rest and breaks;
     an exception drops the buffer and breaks.  Both are outside valid streams: Fail. *)
  Definition ev_gen (strict : bool) (s : unit) (buf : bytes) : step N unit http_msg err :=
    match parse_request_gen strict buf with
    | RNeed => Need
    | RSkip _ => Fail EBlankFirstLine
    | RFail e => Fail e
    | RFrame m rest => Frame m tt rest
    end.
  Definition ev_p1 := ev_gen false.
  Definition ev_p1_nn := ev_gen true.

  (* The request handler is an input of the server step.  `request, rest = parse_request(data)`
     has assigned `rest` before the handler is called, so whatever the handler does (returns a
     response, raises -> 500, returns None -> 404) the bytes after the request stay buffered. *)
  Variable handler : http_msg -> hout.

  Definition httpdh_gen (strict : bool) (s : unit) (buf : bytes) : step N unit (http_msg * answer) err :=
    step_map (fun m => (m, answer_of (handler m))) (httpd_gen strict s buf).
  Definition httpdh_p1 := httpdh_gen false.
  Definition httpdh_p1_nn := httpdh_gen true.

  (* The two loops exactly as written, including what they do where the drain shape says
     Fail (the connection stays open there).  Proofs relate them to Framing.run. *)
  Inductive srv_out := SReq (m : http_msg) (a : answer) | SErr500 (e : err).

  (* _parse_and_send_next: (what was answered, returned rest) *)
  Definition httpd_next (buf : bytes) : option srv_out * bytes :=
    match parse_request buf with
    | RNeed | RSkip _ => (None, buf)                 (* if not request: return data *)
    | RFail e => (Some (SErr500 e), [])              (* except (parser): resp = 500; rest is still b"" *)
    | RFrame m rest => (Some (SReq m (answer_of (handler m))), rest)   (* handler raised or not: rest *)
    end.

  Fixpoint httpd_loop (fuel : nat) (buf : bytes) : list srv_out * bytes :=
    match fuel with
    | O => ([], buf)
    | S f =>
        match buf with
        | [] => ([], [])                             (* while self._request_buffer *)
        | _ =>
            let '(o, rest) := httpd_next buf in
            let os := match o with Some x => [x] | None => [] end in
            if bytes_beq rest buf then (os, buf)     (* if rest == self._request_buffer: break *)
            else let '(ms, b) := httpd_loop f rest in (os ++ ms, b)
        end
    end.

  Fixpoint ev_loop (fuel : nat) (buf : bytes) : list http_msg * bytes :=
    match fuel with
    | O => ([], buf)
    | S f =>
        match buf with
        | [] => ([], [])
        | _ =>
            match parse_request buf with
            | RNeed => ([], buf)                     (* request is None: break (buffer = data) *)
            | RSkip rest => ([], rest)               (* request is None: break (buffer = rest) *)
            | RFail _ => ([], [])                    (* except: self.buffer = b""; break *)
            | RFrame m rest => let '(ms, b) := ev_loop f rest in (m :: ms, b)
            end
        end
    end.

  (* a sequence of data_received calls on the exact loops *)
  Fixpoint httpd_feeds (buf : bytes) (chunks : list bytes) : list srv_out * bytes :=
    match chunks with
    | [] => ([], buf)
    | c :: cs => let '(ms, b) := httpd_loop (length (buf ++ c)) (buf ++ c) in
                 let '(ms', b') := httpd_feeds b cs in (ms ++ ms', b')
    end.
  Fixpoint ev_feeds (buf : bytes) (chunks : list bytes) : list http_msg * bytes :=
    match chunks with
    | [] => ([], buf)
    | c :: cs => let '(ms, b) := ev_loop (length (buf ++ c)) (buf ++ c) in
                 let '(ms', b') := ev_feeds b cs in (ms ++ ms', b')
    end.

  (* format side, for the round trip: first line, header lines "key: value", blank line, body *)
  Definition format_head (first : bytes) (hdrs : list (bytes * bytes)) : bytes :=
    first ++ concat (map (fun kv => CRLF ++ fst kv ++ COLSP ++ snd kv) hdrs) ++ CRLF2.
End Http.

(* ------------------------------------------------------------------ two layers *)

(* AbstractHAPChannel.data_received (guard = true: `if decrypt:`) and HttpConnection.data_received
   with receive_processor = HAPSession.decrypt (guard = false): layer A turns the read into
   plaintext pieces, their concatenation is appended to layer B's buffer and B's loop runs. *)
Section Layered.
  Variables (SA SB MB : Type).
  Variable pa : SA -> bytes -> step N SA bytes err.
  Variable pb : SB -> bytes -> step N SB MB err.
  Variable guard : bool.

  Inductive lres :=
  | LOut (ms : list MB) (sa : SA) (bufa : bytes) (sb : SB) (bufb : bytes)
  | LFailA (ms : list MB) (e : err)       (* decrypt raised: nothing of this read reaches layer B *)
  | LFailB (ms : list MB) (e : err)
  | LOutOfFuel.

  Definition lcons (ms : list MB) (r : lres) : lres :=
    match r with
    | LOut ms' sa ba sb bb => LOut (ms ++ ms') sa ba sb bb
    | LFailA ms' e => LFailA (ms ++ ms') e
    | LFailB ms' e => LFailB (ms ++ ms') e
    | LOutOfFuel => LOutOfFuel
    end.

  Fixpoint lfeeds (sa : SA) (bufa : bytes) (sb : SB) (bufb : bytes) (chunks : list bytes) : lres :=
    match chunks with
    | [] => LOut [] sa bufa sb bufb
    | c :: cs =>
        match run pa sa (bufa ++ c) with
        | Out ps sa' ra =>
            let plain := concat ps in
            if guard && negb (nonempty plain) then lfeeds sa' ra sb bufb cs
            else match run pb sb (bufb ++ plain) with
                 | Out ms sb' rb => lcons ms (lfeeds sa' ra sb' rb cs)
                 | Failed ms e => LFailB ms e
                 | OutOfFuel => LOutOfFuel
                 end
        | Failed _ e => LFailA [] e
        | OutOfFuel => LOutOfFuel
        end
    end.

  (* the whole stream in one read *)
  Definition lwhole (sa : SA) (bufa : bytes) (sb : SB) (bufb : bytes) (x : bytes) : lres :=
    match run pa sa (bufa ++ x) with
    | Out ps sa' ra =>
        match run pb sb (bufb ++ concat ps) with
        | Out ms sb' rb => LOut ms sa' ra sb' rb
        | Failed ms e => LFailB ms e
        | OutOfFuel => LOutOfFuel
        end
    | Failed _ e => LFailA [] e
    | OutOfFuel => LOutOfFuel
    end.
End Layered.

Arguments LOut {SA SB MB} ms sa bufa sb bufb.
Arguments LFailA {SA SB MB} ms e.
Arguments LFailB {SA SB MB} ms e.
Arguments LOutOfFuel {SA SB MB}.

(* ------------------------------------------------------------------ correspondence *)

(* split a stream at ascending absolute positions *)
Fixpoint cut_at (prev : nat) (cuts : list nat) (l : bytes) : list bytes :=
  match cuts with
  | [] => [l]
  | c :: cs => firstn (c - prev) l :: cut_at c cs (skipn (c - prev) l)
  end.

Definition all1 (n : nat) : list (list nat) := map (fun i => [i]) (seq 1 (n - 1)).
Definition all2 (n : nat) : list (list nat) :=
  flat_map (fun i => map (fun j => [i; j]) (seq (S i) (n - 1 - i))) (seq 1 (n - 1)).
Definition bytewise (n : nat) : list (list nat) := [seq 1 (n - 1)].

(* which segmentations of the stream are evaluated: explicit cut lists, plus (flags) every
   single cut, every pair of cuts, one byte at a time *)
Definition segs (n : nat) (explicit : list (list nat)) (f1 f2 fb : bool) : list (list nat) :=
  explicit ++ (if f1 then all1 n else []) ++ (if f2 then all2 n else []) ++ (if fb then bytewise n else []).

Definition pair_beq {A B} (ea : A -> A -> bool) (eb : B -> B -> bool) (x y : A * B) : bool :=
  ea (fst x) (fst y) && eb (snd x) (snd y).

(* decrypt tables recorded from the real cipher: (counter, aad, ciphertext, result) *)
Definition dectab := list (N * bytes * bytes * option bytes).
Fixpoint dec_lookup (t : dectab) (c : N) (aad data : bytes) : option bytes :=
  match t with
  | [] => None
  | (c', aad', data', r) :: t' =>
      if (c =? c') && bytes_beq aad aad' && bytes_beq data data' then r else dec_lookup t' c aad data
  end.

Definition memb (l : list bytes) (x : bytes) : bool := existsb (bytes_beq x) l.

Record segspec := { sg_explicit : list (list nat); sg_all1 : bool; sg_all2 : bool; sg_bytewise : bool }.
Definition segs_of (stream : bytes) (g : segspec) : list (list nat) :=
  segs (length stream) (sg_explicit g) (sg_all1 g) (sg_all2 g) (sg_bytewise g).

(* -- MRP: delivered payloads, final counter, residual buffer *)
Definition mrp_delivered (ms : list mrp_msg) : list bytes :=
  flat_map (fun m => match m with MDelivered d => [d] | MSwallowed _ => [] end) ms.

Record mrp_case := { mc_state : option N; mc_dec : dectab; mc_pb_bad : list bytes; mc_stream : bytes;
                     mc_segs : segspec; mc_msgs : list bytes; mc_final : option N; mc_rest : bytes }.

Definition mrp_check (c : mrp_case) : bool :=
  let p := mrp_p1 (fun n d => dec_lookup (mc_dec c) n [] d) (fun d => negb (memb (mc_pb_bad c) d)) in
  forallb (fun cuts =>
    match feeds p (mc_state c) [] (cut_at 0 cuts (mc_stream c)) with
    | Out ms s r => list_beq bytes_beq (mrp_delivered ms) (mc_msgs c)
                    && opt_beq N.eqb s (mc_final c) && bytes_beq r (mc_rest c)
    | _ => false
    end) (segs_of (mc_stream c) (mc_segs c)).

(* -- Companion: (frame type, payload) delivered, final counter, residual buffer *)
Definition comp_delivered (ms : list comp_msg) : list (N * bytes) :=
  flat_map (fun m => match m with CFrame t p => [(t, p)] | CSwallowed _ _ => [] end) ms.

Record comp_case := { cc_state : option N; cc_dec : dectab; cc_types : list N; cc_stream : bytes;
                      cc_segs : segspec; cc_msgs : list (N * bytes); cc_final : option N; cc_rest : bytes }.

Definition comp_check (c : comp_case) : bool :=
  let p := comp_p1 (dec_lookup (cc_dec c)) (fun t => existsb (N.eqb t) (cc_types c)) in
  forallb (fun cuts =>
    match feeds p (cc_state c) [] (cut_at 0 cuts (cc_stream c)) with
    | Out ms s r => list_beq (pair_beq N.eqb bytes_beq) (comp_delivered ms) (cc_msgs c)
                    && opt_beq N.eqb s (cc_final c) && bytes_beq r (cc_rest c)
    | _ => false
    end) (segs_of (cc_stream c) (cc_segs c)).

(* -- HAP session alone: plaintext pieces joined, final counter, residual; or failure *)
Record hap_case := { hc_dec : dectab; hc_stream : bytes; hc_segs : segspec;
                     hc_fail : bool; hc_plain : bytes; hc_final : N; hc_rest : bytes }.

Definition hap_check (c : hap_case) : bool :=
  let p := hap_p1 (dec_lookup (hc_dec c)) in
  forallb (fun cuts =>
    match feeds p 0 [] (cut_at 0 cuts (hc_stream c)) with
    | Out ms s r => negb (hc_fail c) && bytes_beq (concat ms) (hc_plain c) && (s =? hc_final c) && bytes_beq r (hc_rest c)
    | Failed _ _ => hc_fail c
    | OutOfFuel => false
    end) (segs_of (hc_stream c) (hc_segs c)).

(* -- HTTP messages *)
Definition kv_beq := pair_beq bytes_beq bytes_beq.
Definition http_msg_beq (a b : http_msg) : bool :=
  bytes_beq (fst (fst a)) (fst (fst b)) && list_beq kv_beq (snd (fst a)) (snd (fst b)) && bytes_beq (snd a) (snd b).

Definition ascii (l : bytes) : bool := forallb (fun b => b <? 128) l.

(* outcome observed on the implementation: the messages, then either the residual buffer
   or "an exception escaped" *)
Inductive obs_end := ORest (rest : bytes) | ORaised.

Definition ds_msg_beq (a b : ds_msg) : bool :=
  bytes_beq (ds_type a) (ds_type b) && bytes_beq (ds_cmd a) (ds_cmd b) && (ds_seqno a =? ds_seqno b)
  && (ds_pad a =? ds_pad b) && bytes_beq (ds_payload a) (ds_payload b).

(* plain (unencrypted) HTTP client connection *)
Record httpc_case := { hp_bad_first : list bytes; hp_stream : bytes; hp_segs : segspec;
                       hp_msgs : list http_msg; hp_end : obs_end }.

Definition httpc_check (c : httpc_case) : bool :=
  let p := httpc_p1 ascii (fun f => negb (memb (hp_bad_first c) f)) in
  forallb (fun cuts =>
    match feeds p tt [] (cut_at 0 cuts (hp_stream c)), hp_end c with
    | Out ms _ r, ORest r' => list_beq http_msg_beq ms (hp_msgs c) && bytes_beq r r'
    | Failed ms _, ORaised => list_beq http_msg_beq ms (hp_msgs c)
    | _, _ => false
    end) (segs_of (hp_stream c) (hp_segs c)).

(* BasicHttpServer, exact loop: requests handled with the status code written for each, lone 500
   answers (parser failures), residual buffer *)
Inductive srv_obs := OReq (m : http_msg) (code : N) | O500.
Definition answer_code (a : answer) (code : N) : bool :=
  match a with AHandler => code =? 200 | A500 => code =? 500 | A404 => code =? 404 end.
Definition srv_obs_beq (a : srv_out) (b : srv_obs) : bool :=
  match a, b with
  | SReq m an, OReq m' code => http_msg_beq m m' && answer_code an code
  | SErr500 _, O500 => true
  | _, _ => false
  end.
Fixpoint list_beq2 {A B} (e : A -> B -> bool) (a : list A) (b : list B) : bool :=
  match a, b with
  | [], [] => true
  | x :: a', y :: b' => e x y && list_beq2 e a' b'
  | _, _ => false
  end.

(* handler script: requests for which the handler does not simply return a response *)
Definition handler_tab := list (http_msg * hout).
Fixpoint handler_of (t : handler_tab) (m : http_msg) : hout :=
  match t with
  | [] => HResponse
  | (m', h) :: t' => if http_msg_beq m m' then h else handler_of t' m
  end.

Record httpd_case := { hd_bad_first : list bytes; hd_handler : handler_tab; hd_stream : bytes; hd_segs : segspec;
                       hd_out : list srv_obs; hd_rest : bytes }.

Definition httpd_check (c : httpd_case) : bool :=
  let ok := fun f => negb (memb (hd_bad_first c) f) in
  forallb (fun cuts =>
    let '(os, r) := httpd_feeds ascii ok (handler_of (hd_handler c)) [] (cut_at 0 cuts (hd_stream c)) in
    list_beq2 srv_obs_beq os (hd_out c) && bytes_beq r (hd_rest c))
    (segs_of (hd_stream c) (hd_segs c)).

(* the exact server loop and the Framing instance agree on this stream *)
Definition srv_out_beq (a b : srv_out) : bool :=
  match a, b with
  | SReq m x, SReq m' y => http_msg_beq m m' && match x, y with AHandler, AHandler | A500, A500 | A404, A404 => true | _, _ => false end
  | SErr500 e, SErr500 e' => err_eqb e e'
  | _, _ => false
  end.
Definition httpd_agree (c : httpd_case) : bool :=
  let ok := fun f => negb (memb (hd_bad_first c) f) in
  let h := handler_of (hd_handler c) in
  match run (httpdh_p1 ascii ok h) tt (hd_stream c), httpd_loop ascii ok h (length (hd_stream c)) (hd_stream c) with
  | Out ms _ r, (os, r') => list_beq srv_out_beq os (map (fun ma => SReq (fst ma) (snd ma)) ms) && bytes_beq r r'
  | Failed ms e, (os, r') => list_beq srv_out_beq os (map (fun ma => SReq (fst ma) (snd ma)) ms ++ [SErr500 e]) && bytes_beq r' []
  | OutOfFuel, _ => false
  end.

(* -- HAP channel with a second layer: data stream / event channel / encrypted HTTP client *)
Inductive layer2 := L2DataStream (bad_payloads : list bytes) (pbs : list (bytes * list bytes)) (consumer : list bytes)
                              (handed : list (bytes * bool)) (replies : list N)
  | L2Event (bad_first : list bytes) | L2Http (bad_first : list bytes).
Inductive l2msg := L2D (m : ds_msg) | L2H (m : http_msg).
Definition l2msg_beq (a b : l2msg) : bool :=
  match a, b with
  | L2D x, L2D y => ds_msg_beq x y
  | L2H x, L2H y => http_msg_beq x y
  | _, _ => false
  end.

Record lay_case := { lc_layer : layer2; lc_dec : dectab; lc_stream : bytes; lc_segs : segspec;
                     lc_msgs : list l2msg; lc_counter : N; lc_bufa : bytes; lc_end : obs_end }.

Definition lay_result (c : lay_case) (chunks : list bytes) : option (list l2msg * option (N * bytes * bytes)) :=
  let pa := hap_p1 (dec_lookup (lc_dec c)) in
  match lc_layer c with
  | L2DataStream bad pbs consumer handed replies =>
      let pbs_of := fun pl => match find (fun e => bytes_beq (fst e) pl) pbs with Some e => snd e | None => [] end in
      match lfeeds _ _ _ pa (dsc_p1 (fun m => negb (memb bad (ds_payload m))) pbs_of (fun pb => negb (memb consumer pb)))
                   true 0 [] tt [] chunks with
      | LOut ms sa ba _ bb =>
          (* what the listener was handed (with its outcome) and the replies sent, in order *)
          if list_beq (pair_beq bytes_beq Bool.eqb) (flat_map dsn_handed ms) handed
             && list_beq N.eqb (flat_map (fun x => if dsn_reply x then [ds_seqno (dsn_frame x)] else []) ms) replies
          then Some (map (fun x => L2D (dsn_frame x)) ms, Some (sa, ba, bb)) else None
      | LFailA ms _ | LFailB ms _ => Some (map (fun x => L2D (dsn_frame x)) ms, None)
      | LOutOfFuel => None
      end
  | L2Event bad =>
      match lfeeds _ _ _ pa (ev_p1 ascii (fun f => negb (memb bad f))) true 0 [] tt [] chunks with
      | LOut ms sa ba _ bb => Some (map L2H ms, Some (sa, ba, bb))
      | LFailA ms _ | LFailB ms _ => Some (map L2H ms, None)
      | LOutOfFuel => None
      end
  | L2Http bad =>
      match lfeeds _ _ _ pa (httpc_p1 ascii (fun f => negb (memb bad f))) false 0 [] tt [] chunks with
      | LOut ms sa ba _ bb => Some (map L2H ms, Some (sa, ba, bb))
      | LFailA ms _ | LFailB ms _ => Some (map L2H ms, None)
      | LOutOfFuel => None
      end
  end.

Definition lay_check (c : lay_case) : bool :=
  forallb (fun cuts =>
    match lay_result c (cut_at 0 cuts (lc_stream c)), lc_end c with
    | Some (ms, Some (sa, ba, bb)), ORest r =>
        list_beq l2msg_beq ms (lc_msgs c) && (sa =? lc_counter c) && bytes_beq ba (lc_bufa c) && bytes_beq bb r
    | Some (ms, None), ORaised => list_beq l2msg_beq ms (lc_msgs c)
    | _, _ => false
    end) (segs_of (lc_stream c) (lc_segs c)).

(* -- EventChannel.handle_received alone, exact loop (plaintext appended to self.buffer, then the
   loop), including blank request lines and unparsable data *)
Record ev_case := { ec_bad_first : list bytes; ec_stream : bytes; ec_segs : segspec;
                    ec_msgs : list http_msg; ec_rest : bytes }.

Definition ev_check (c : ev_case) : bool :=
  let ok := fun f => negb (memb (ec_bad_first c) f) in
  forallb (fun cuts =>
    let '(ms, r) := ev_feeds ascii ok [] (cut_at 0 cuts (ec_stream c)) in
    list_beq http_msg_beq ms (ec_msgs c) && bytes_beq r (ec_rest c))
    (segs_of (ec_stream c) (ec_segs c)).
