(* C02 - two stacked parsers (HAP session below a channel's own loop): the whole pipeline is
   independent of the segmentation of the encrypted stream. *)
From Coq Require Import NArith ZArith List Bool Arith Lia.
From PV Require Import Common.Cases Common.Framing Common.Endian C02.Model C02.ProofsBase.
Import ListNotations.
Local Open Scope N_scope.

Section Split.
  Variables (S M : Type).
  Variable p : S -> bytes -> step N S M err.
  Hypothesis stable : forall s x m s' r y, p s x = Frame m s' r -> p s (x ++ y) = Frame m s' (r ++ y).
  Hypothesis progress : forall s x m s' r, p s x = Frame m s' r -> (length r < length x)%nat.
  Hypothesis failpfx : forall s x y e, p s x = Fail e -> exists e', p s (x ++ y) = Fail e'.

  Lemma run_split : forall s x y ms s2 r, run p s (x ++ y) = Out ms s2 r ->
    exists ms1 s1 r1 ms2, run p s x = Out ms1 s1 r1 /\ run p s1 (r1 ++ y) = Out ms2 s2 r /\ ms = ms1 ++ ms2.
  Proof.
    intros s x y ms s2 r H.
    pose proof (run_app _ _ _ _ p stable progress failpfx (length x) s x y (le_n _)) as A.
    assert (NF : forall ms0 e, run p s (x ++ y) <> Failed ms0 e) by (intros; rewrite H; discriminate).
    specialize (A NF).
    destruct (run p s x) as [ms1 s1 r1| |] eqn:E1; try contradiction.
    destruct (run p s1 (r1 ++ y)) as [ms2 s2' r'| |] eqn:E2; try contradiction.
    rewrite H in A. inversion A; subst. exists ms1, s1, r1, ms2. auto.
  Qed.

  Lemma run_res : forall s x ms s1 r, run p s x = Out ms s1 r -> run p s1 r = Out [] s1 r.
  Proof. intros. eapply run_residual; eauto. Qed.
End Split.

Section Layered.
  Variables (SA SB MB : Type).
  Variable pa : SA -> bytes -> step N SA bytes err.
  Variable pb : SB -> bytes -> step N SB MB err.
  Variable guard : bool.
  Hypothesis a_stable : forall s x m s' r y, pa s x = Frame m s' r -> pa s (x ++ y) = Frame m s' (r ++ y).
  Hypothesis a_progress : forall s x m s' r, pa s x = Frame m s' r -> (length r < length x)%nat.
  Hypothesis a_failpfx : forall s x y e, pa s x = Fail e -> exists e', pa s (x ++ y) = Fail e'.
  Hypothesis b_stable : forall s x m s' r y, pb s x = Frame m s' r -> pb s (x ++ y) = Frame m s' (r ++ y).
  Hypothesis b_progress : forall s x m s' r, pb s x = Frame m s' r -> (length r < length x)%nat.
  Hypothesis b_failpfx : forall s x y e, pb s x = Fail e -> exists e', pb s (x ++ y) = Fail e'.

  Theorem lfeeds_whole : forall chunks sa bufa sb bufb ms sa2 ra2 sb2 rb2,
    run pa sa bufa = Out [] sa bufa ->
    run pb sb bufb = Out [] sb bufb ->
    lwhole _ _ _ pa pb sa bufa sb bufb (concat chunks) = LOut ms sa2 ra2 sb2 rb2 ->
    lfeeds _ _ _ pa pb guard sa bufa sb bufb chunks = LOut ms sa2 ra2 sb2 rb2.
  Proof.
    induction chunks as [|c cs IH]; intros sa bufa sb bufb ms sa2 ra2 sb2 rb2 Ha Hb W.
    - unfold lwhole in W. cbn [concat] in W. rewrite app_nil_r, Ha in W. cbn [concat] in W.
      rewrite app_nil_r, Hb in W. exact W.
    - unfold lwhole in W. cbn [concat] in W. rewrite app_assoc in W.
      destruct (run pa sa ((bufa ++ c) ++ concat cs)) as [ps sa' ra'| |] eqn:RA; try discriminate.
      destruct (run pb sb (bufb ++ concat ps)) as [ms' sb' rb'| |] eqn:RB; try discriminate.
      inversion W; subst ms' sa' ra' sb' rb'. clear W.
      destruct (run_split _ _ pa a_stable a_progress a_failpfx _ _ _ _ _ _ RA)
        as (ps1 & sa1 & r1 & ps2 & A1 & A2 & Eps).
      subst ps. rewrite concat_app, app_assoc in RB.
      destruct (run_split _ _ pb b_stable b_progress b_failpfx _ _ _ _ _ _ RB)
        as (ms1 & sb1 & rb1 & ms2 & B1 & B2 & Ems).
      subst ms.
      assert (Ha1 : run pa sa1 r1 = Out [] sa1 r1) by (eapply run_res; eauto).
      assert (Hb1 : run pb sb1 rb1 = Out [] sb1 rb1) by (eapply run_res; eauto).
      assert (W1 : lwhole _ _ _ pa pb sa1 r1 sb1 rb1 (concat cs) = LOut ms2 sa2 ra2 sb2 rb2).
      { unfold lwhole. rewrite A2, B2. reflexivity. }
      specialize (IH _ _ _ _ _ _ _ _ _ Ha1 Hb1 W1).
      cbn [lfeeds]. rewrite A1.
      destruct (guard && negb (nonempty (concat ps1))) eqn:G.
      + (* decrypt returned nothing: handle_received is not called *)
        apply andb_true_iff in G as [_ G]. destruct (concat ps1) as [|b0 t0] eqn:Ec; [|discriminate].
        rewrite app_nil_r, Hb in B1. inversion B1; subst ms1 sb1 rb1. exact IH.
      + rewrite B1, IH. reflexivity.
  Qed.

  (* two segmentations of the same encrypted stream: same messages, same states, same buffers *)
  Corollary layered_chunking_irrelevant : forall c1 c2 sa sb ms sa2 ra2 sb2 rb2,
    concat c1 = concat c2 ->
    lwhole _ _ _ pa pb sa [] sb [] (concat c1) = LOut ms sa2 ra2 sb2 rb2 ->
    lfeeds _ _ _ pa pb guard sa [] sb [] c1 = LOut ms sa2 ra2 sb2 rb2 /\
    lfeeds _ _ _ pa pb guard sa [] sb [] c2 = LOut ms sa2 ra2 sb2 rb2.
  Proof.
    intros c1 c2 sa sb ms sa2 ra2 sb2 rb2 E W. split.
    - apply lfeeds_whole; auto.
    - apply lfeeds_whole; auto. now rewrite <- E.
  Qed.
End Layered.

(* the upper parser replaced by one that agrees with it wherever it does not fail *)
Section LayerAgree.
  Variables (SA SB MB : Type).
  Variable pa : SA -> bytes -> step N SA bytes err.
  Variables p q : SB -> bytes -> step N SB MB err.
  Variable guard : bool.
  Hypothesis agree : forall s x, (forall e, q s x <> Fail e) -> p s x = q s x.

  Lemma lfeeds_agree : forall chunks sa bufa sb bufb ms sa2 ra2 sb2 rb2,
    lfeeds _ _ _ pa q guard sa bufa sb bufb chunks = LOut ms sa2 ra2 sb2 rb2 ->
    lfeeds _ _ _ pa p guard sa bufa sb bufb chunks = LOut ms sa2 ra2 sb2 rb2.
  Proof.
    induction chunks as [|c cs IH]; intros sa bufa sb bufb ms sa2 ra2 sb2 rb2 H; [exact H|].
    cbn [lfeeds] in *.
    destruct (run pa sa (bufa ++ c)) as [ps sa1 r1| |]; try discriminate.
    destruct (guard && negb (nonempty (concat ps))).
    - now apply IH.
    - destruct (run q sb (bufb ++ concat ps)) as [ms1 sb1 rb1| |] eqn:R; try discriminate.
      rewrite (run_agree _ _ p q agree _ _ _ _ _ R).
      destruct (lfeeds _ _ _ pa q guard sa1 r1 sb1 rb1 cs) as [ms' a b c' d| | |] eqn:L; try discriminate.
      rewrite (IH _ _ _ _ _ _ _ _ _ L). exact H.
  Qed.
End LayerAgree.
