(* C02 - property theorems only.  `feeds p s [] chunks` is a sequence of data_received calls on a
   fresh connection, `run p s bytes` the same bytes in one read; both return the messages handed
   to the layer above, the parser state (cipher counters) and the residual buffer. *)
From Coq Require Import NArith ZArith List Bool Arith Lia.
From PV Require Import Common.Cases Common.Framing Common.Endian.
From PV Require Import C02.Model C02.Spec C02.ProofsBase C02.ProofsLaws C02.ProofsHttp C02.ProofsLayer C02.ProofsSpec C02.ProofsRoundtrip C02.ProofsStrict.
Import ListNotations.
Local Open Scope N_scope.

Definition no_failure {S M} (r : res N S M err) : Prop := forall ms e, r <> Failed ms e.

(* ---- MRP: for EVERY byte stream (valid or not), every decrypt/protobuf behaviour, encryption
   on or off: the listener sees the same messages, and counter and buffer end up the same. *)
Theorem C02_mrp_segmentation : forall dec pb_ok s chunks,
  feeds (mrp_p1 dec pb_ok) s [] chunks = run (mrp_p1 dec pb_ok) s (concat chunks).
Proof.
  intros. apply (feed_chunks _ _ _ _ _ (mrp_stable dec pb_ok) (mrp_progress dec pb_ok) (mrp_failpfx dec pb_ok) chunks s []).
  - reflexivity.
  - intros ms e. apply drain_never_fails. apply mrp_never_fails.
Qed.
Print Assumptions C02_mrp_segmentation.

(* ---- Companion: likewise unconditional. *)
Theorem C02_companion_segmentation : forall dec known_type s chunks,
  feeds (comp_p1 dec known_type) s [] chunks = run (comp_p1 dec known_type) s (concat chunks).
Proof.
  intros. apply (feed_chunks _ _ _ _ _ (comp_stable dec known_type) (comp_progress dec known_type) (comp_failpfx dec known_type) chunks s []).
  - reflexivity.
  - intros ms e. apply drain_never_fails. apply comp_never_fails.
Qed.
Print Assumptions C02_companion_segmentation.

(* ---- MRP and Companion with the layer above as a parameter: for every listener behaviour (returns
   or raises, per message) what the listener is handed - including the message it raised on -
   counter and buffer do not depend on the segmentation, and nothing leaves data_received. *)
Theorem C02_mrp_consumer_segmentation : forall dec pb_ok consumer s chunks,
  feeds (mrpc_p1 dec pb_ok consumer) s [] chunks = run (mrpc_p1 dec pb_ok consumer) s (concat chunks) /\
  no_failure (run (mrpc_p1 dec pb_ok consumer) s (concat chunks)).
Proof.
  intros dec pb c s chunks.
  assert (NF : no_failure (run (mrpc_p1 dec pb c) s (concat chunks))).
  { intros ms e. apply drain_never_fails. apply (map_never_fails (mrp_p1 dec pb)). apply mrp_never_fails. }
  split; [|exact NF].
  exact (feed_chunks _ _ _ _ _ (map_stable _ _ _ (mrp_p1 dec pb) _ (mrp_stable dec pb))
           (map_progress _ _ _ (mrp_p1 dec pb) _ (mrp_progress dec pb))
           (map_failpfx _ _ _ (mrp_p1 dec pb) _ (mrp_failpfx dec pb)) chunks s [] eq_refl NF).
Qed.
Print Assumptions C02_mrp_consumer_segmentation.

Theorem C02_companion_consumer_segmentation : forall dec known_type consumer s chunks,
  feeds (compc_p1 dec known_type consumer) s [] chunks = run (compc_p1 dec known_type consumer) s (concat chunks) /\
  no_failure (run (compc_p1 dec known_type consumer) s (concat chunks)).
Proof.
  intros dec kt c s chunks.
  assert (NF : no_failure (run (compc_p1 dec kt c) s (concat chunks))).
  { intros ms e. apply drain_never_fails. apply (map_never_fails (comp_p1 dec kt)). apply comp_never_fails. }
  split; [|exact NF].
  exact (feed_chunks _ _ _ _ _ (map_stable _ _ _ (comp_p1 dec kt) _ (comp_stable dec kt))
           (map_progress _ _ _ (comp_p1 dec kt) _ (comp_progress dec kt))
           (map_failpfx _ _ _ (comp_p1 dec kt) _ (comp_failpfx dec kt)) chunks s [] eq_refl NF).
Qed.
Print Assumptions C02_companion_consumer_segmentation.

(* ---- data stream channel with the layer above as a parameter (DataStreamChannel._process_payload
   calls listener.handle_protobuf inside try/except for every protobuf message of a frame): for every
   listener behaviour the protobuf messages handed over - with the outcome of each, including the
   ones it raised on -, the replies owed to `sync` frames and the buffer do not depend on the
   segmentation.  The only failures left are those of ds_p1 itself (size < 32, undecodable plist
   structure): a raising listener is not one of them. *)
Theorem C02_datastream_consumer_segmentation : forall handler_ok pbs_of consumer chunks,
  no_failure (run (ds_p1 handler_ok) tt (concat chunks)) ->
  feeds (dsc_p1 handler_ok pbs_of consumer) tt [] chunks = run (dsc_p1 handler_ok pbs_of consumer) tt (concat chunks) /\
  no_failure (run (dsc_p1 handler_ok pbs_of consumer) tt (concat chunks)).
Proof.
  intros ok pbs c chunks NF.
  assert (NF' : no_failure (run (dsc_p1 ok pbs c) tt (concat chunks))).
  { intros ms e H. unfold run in *.
    destruct (drain_map_failed (ds_p1 ok) (ds_consume pbs c) _ _ _ _ _ H) as [ms' E]. eapply NF. exact E. }
  split; [|exact NF'].
  exact (feed_chunks _ _ _ _ _ (map_stable _ _ _ (ds_p1 ok) _ (ds_stable ok))
           (map_progress _ _ _ (ds_p1 ok) _ (ds_progress ok))
           (map_failpfx _ _ _ (ds_p1 ok) _ (ds_failpfx ok)) chunks tt [] eq_refl NF').
Qed.
Print Assumptions C02_datastream_consumer_segmentation.

(* ---- HAP session (HAPSession.decrypt): if the stream read at once raises nothing (every block
   authentic), any segmentation yields the same plaintext pieces, counter and leftover bytes. *)
Theorem C02_hap_session_segmentation : forall dec c chunks,
  no_failure (run (hap_p1 dec) c (concat chunks)) ->
  feeds (hap_p1 dec) c [] chunks = run (hap_p1 dec) c (concat chunks).
Proof.
  intros dec c chunks NF.
  apply (feed_chunks _ _ _ _ _ (hap_stable dec) (hap_progress dec) (hap_failpfx dec) chunks c []); [reflexivity|exact NF].
Qed.
Print Assumptions C02_hap_session_segmentation.

(* ---- data stream frames (DataStreamChannel.handle_received on the plaintext buffer) *)
Theorem C02_datastream_segmentation : forall handler_ok chunks,
  no_failure (run (ds_p1 handler_ok) tt (concat chunks)) ->
  feeds (ds_p1 handler_ok) tt [] chunks = run (ds_p1 handler_ok) tt (concat chunks).
Proof.
  intros ok chunks NF.
  apply (feed_chunks _ _ _ _ _ (ds_stable ok) (ds_progress ok) (ds_failpfx ok) chunks tt []); [reflexivity|exact NF].
Qed.
Print Assumptions C02_datastream_segmentation.

(* ---- HTTP.  httpc_p1 / httpd_p1 / ev_p1 are the code as written: ANY integer Content-Length is
   accepted (Python int(): sign, surrounding whitespace, underscores) and the body slices follow
   Python's rules for negative bounds.  The *_nn parsers additionally refuse a negative length.
   Hypothesis: the unsplit stream, read by the strict parser, raises nothing.  Conclusion, about the
   code as written: any segmentation gives the same messages and residual buffer - and the strict
   parser describes it exactly. *)
Theorem C02_http_client_segmentation : forall utf8_ok first_ok chunks,
  no_failure (run (httpc_p1_nn utf8_ok first_ok) tt (concat chunks)) ->
  feeds (httpc_p1 utf8_ok first_ok) tt [] chunks = run (httpc_p1 utf8_ok first_ok) tt (concat chunks) /\
  run (httpc_p1 utf8_ok first_ok) tt (concat chunks) = run (httpc_p1_nn utf8_ok first_ok) tt (concat chunks).
Proof.
  intros u f chunks NF.
  exact (seg_via_strict _ _ (httpc_p1 u f) (httpc_p1_nn u f) (httpc_agree u f) (httpc_stable u f)
           (httpc_progress u f true) (httpc_failpfx u f) chunks tt NF).
Qed.
Print Assumptions C02_http_client_segmentation.

(* ---- built-in HTTP server (BasicHttpServer.data_received).  The request handler is a parameter:
   for every handler behaviour (returns a response / raises -> 500 / returns None -> 404, per
   request) the requests handed to it, the answer written for each and the residual buffer do not
   depend on the segmentation - in particular a raising handler does not cost the requests that
   follow it in the buffer. *)
Theorem C02_http_server_segmentation : forall utf8_ok first_ok handler chunks,
  no_failure (run (httpdh_p1_nn utf8_ok first_ok handler) tt (concat chunks)) ->
  feeds (httpdh_p1 utf8_ok first_ok handler) tt [] chunks = run (httpdh_p1 utf8_ok first_ok handler) tt (concat chunks) /\
  run (httpdh_p1 utf8_ok first_ok handler) tt (concat chunks) = run (httpdh_p1_nn utf8_ok first_ok handler) tt (concat chunks).
Proof.
  intros u f h chunks NF.
  exact (seg_via_strict _ _ (httpdh_p1 u f h) (httpdh_p1_nn u f h) (httpdh_agree u f h) (httpdh_stable u f h)
           (httpdh_progress u f h true) (httpdh_failpfx u f h) chunks tt NF).
Qed.
Print Assumptions C02_http_server_segmentation.

(* the requests themselves (handler ignored): the parser instance C05 re-exports *)
Theorem C02_http_server_requests_segmentation : forall utf8_ok first_ok chunks,
  no_failure (run (httpd_p1_nn utf8_ok first_ok) tt (concat chunks)) ->
  feeds (httpd_p1 utf8_ok first_ok) tt [] chunks = run (httpd_p1 utf8_ok first_ok) tt (concat chunks) /\
  run (httpd_p1 utf8_ok first_ok) tt (concat chunks) = run (httpd_p1_nn utf8_ok first_ok) tt (concat chunks).
Proof.
  intros u f chunks NF.
  exact (seg_via_strict _ _ (httpd_p1 u f) (httpd_p1_nn u f) (httpd_agree u f) (httpd_stable u f)
           (httpd_progress u f true) (httpd_failpfx u f) chunks tt NF).
Qed.
Print Assumptions C02_http_server_requests_segmentation.

(* ---- event channel requests (EventChannel.handle_received on the plaintext buffer) *)
Theorem C02_event_segmentation : forall utf8_ok first_ok chunks,
  no_failure (run (ev_p1_nn utf8_ok first_ok) tt (concat chunks)) ->
  feeds (ev_p1 utf8_ok first_ok) tt [] chunks = run (ev_p1 utf8_ok first_ok) tt (concat chunks) /\
  run (ev_p1 utf8_ok first_ok) tt (concat chunks) = run (ev_p1_nn utf8_ok first_ok) tt (concat chunks).
Proof.
  intros u f chunks NF.
  exact (seg_via_strict _ _ (ev_p1 u f) (ev_p1_nn u f) (ev_agree u f) (ev_stable u f)
           (ev_progress u f true) (ev_failpfx u f) chunks tt NF).
Qed.
Print Assumptions C02_event_segmentation.

(* ---- a negative Content-Length is accepted by the code as written, and there the delivered
   message DOES depend on the segmentation: the "body" is whatever is buffered minus |length|
   bytes.  (Not a valid stream; termination still holds, see C02_loops_terminate.) *)
Theorem C02_http_negative_content_length_refuted :
  exists utf8_ok first_ok c1 c2, concat c1 = concat c2 /\
    no_failure (run (httpc_p1 utf8_ok first_ok) tt (concat c1)) /\
    feeds (httpc_p1 utf8_ok first_ok) tt [] c1 <> feeds (httpc_p1 utf8_ok first_ok) tt [] c2.
Proof.
  (* "H/1 2 x" CRLF "Content-Length: -2" CRLF CRLF "abcdef", whole / cut after "ab" *)
  pose (head := [72;47;49;32;50;32;120;13;10] ++ CONTENT_LENGTH ++ [58;32;45;50;13;10;13;10]).
  exists (fun _ => true), (fun _ => true), [head ++ [97;98;99;100;101;102]], [head ++ [97;98]; [99;100;101;102]].
  split; [reflexivity|]. split.
  - intros ms e. vm_compute. discriminate.
  - vm_compute. discriminate.
Qed.
Print Assumptions C02_http_negative_content_length_refuted.

(* ---- the loops of BasicHttpServer and EventChannel exactly as written (they keep the
   connection open where the drain shape says Failed) coincide with `run`: *)
Theorem C02_http_server_loop_as_written : forall utf8_ok first_ok handler buf,
  httpd_loop utf8_ok first_ok handler (length buf) buf =
  match run (httpdh_p1 utf8_ok first_ok handler) tt buf with
  | Out ms _ r => (map (fun ma => SReq (fst ma) (snd ma)) ms, r)
  | Failed ms e => (map (fun ma => SReq (fst ma) (snd ma)) ms ++ [SErr500 e], [])   (* parser raised: 500, buffer emptied *)
  | OutOfFuel => ([], buf)
  end.
Proof. intros u f h buf. apply (httpd_loop_run u f h (length buf) buf). apply le_n. Qed.
Print Assumptions C02_http_server_loop_as_written.

Theorem C02_event_loop_as_written : forall utf8_ok first_ok buf ms s r,
  run (ev_p1 utf8_ok first_ok) tt buf = Out ms s r ->
  ev_loop utf8_ok first_ok (length buf) buf = (ms, r).
Proof.
  intros u f buf ms s r H. pose proof (ev_loop_run u f (length buf) buf (le_n _)) as L.
  unfold run in H. rewrite H in L. exact L.
Qed.
Print Assumptions C02_event_loop_as_written.

(* ---- encrypted AirPlay channels: HAPSession.decrypt below the channel's own loop.  For any
   upper parser obeying the three laws: same messages, same cipher counter, same two buffers. *)
Theorem C02_hap_channel_segmentation :
  forall (SB MB : Type) (pb : SB -> bytes -> step N SB MB err) (guard : bool) dec,
  (forall s x m s' r y, pb s x = Frame m s' r -> pb s (x ++ y) = Frame m s' (r ++ y)) ->
  (forall s x m s' r, pb s x = Frame m s' r -> (length r < length x)%nat) ->
  (forall s x y e, pb s x = Fail e -> exists e', pb s (x ++ y) = Fail e') ->
  forall chunks c sb ms c' ra sb' rb,
  lwhole _ _ _ (hap_p1 dec) pb c [] sb [] (concat chunks) = LOut ms c' ra sb' rb ->
  lfeeds _ _ _ (hap_p1 dec) pb guard c [] sb [] chunks = LOut ms c' ra sb' rb.
Proof.
  intros SB MB pb guard dec St Pr Fp chunks c sb ms c' ra sb' rb W.
  apply (lfeeds_whole _ _ _ (hap_p1 dec) pb guard (hap_stable dec) (hap_progress dec) (hap_failpfx dec) St Pr Fp);
    [reflexivity|reflexivity|exact W].
Qed.
Print Assumptions C02_hap_channel_segmentation.

(* DataStreamChannel.data_received (guard `if decrypt:` present) *)
Theorem C02_datastream_channel : forall dec handler_ok chunks c ms c' ra sb' rb,
  lwhole _ _ _ (hap_p1 dec) (ds_p1 handler_ok) c [] tt [] (concat chunks) = LOut ms c' ra sb' rb ->
  lfeeds _ _ _ (hap_p1 dec) (ds_p1 handler_ok) true c [] tt [] chunks = LOut ms c' ra sb' rb.
Proof.
  intros dec ok. intros. apply (C02_hap_channel_segmentation _ _ _ true dec (ds_stable ok) (ds_progress ok) (ds_failpfx ok)). assumption.
Qed.
Print Assumptions C02_datastream_channel.

(* DataStreamChannel.data_received end to end with the listener as a parameter *)
Theorem C02_datastream_channel_consumer : forall dec handler_ok pbs_of consumer chunks c ms c' ra sb' rb,
  lwhole _ _ _ (hap_p1 dec) (dsc_p1 handler_ok pbs_of consumer) c [] tt [] (concat chunks) = LOut ms c' ra sb' rb ->
  lfeeds _ _ _ (hap_p1 dec) (dsc_p1 handler_ok pbs_of consumer) true c [] tt [] chunks = LOut ms c' ra sb' rb.
Proof.
  intros dec ok pbs cons. intros.
  apply (C02_hap_channel_segmentation _ _ _ true dec
           (map_stable _ _ _ (ds_p1 ok) _ (ds_stable ok)) (map_progress _ _ _ (ds_p1 ok) _ (ds_progress ok))
           (map_failpfx _ _ _ (ds_p1 ok) _ (ds_failpfx ok))). assumption.
Qed.
Print Assumptions C02_datastream_channel_consumer.

(* EventChannel.data_received (hypothesis on the strict parser, conclusion about the code as written) *)
Theorem C02_event_channel : forall dec utf8_ok first_ok chunks c ms c' ra sb' rb,
  lwhole _ _ _ (hap_p1 dec) (ev_p1_nn utf8_ok first_ok) c [] tt [] (concat chunks) = LOut ms c' ra sb' rb ->
  lfeeds _ _ _ (hap_p1 dec) (ev_p1 utf8_ok first_ok) true c [] tt [] chunks = LOut ms c' ra sb' rb /\
  lwhole _ _ _ (hap_p1 dec) (ev_p1 utf8_ok first_ok) c [] tt [] (concat chunks) = LOut ms c' ra sb' rb.
Proof.
  intros dec u f chunks c ms c' ra sb' rb W.
  exact (layered_via_strict _ _ (ev_p1 u f) (ev_p1_nn u f) (ev_agree u f) (ev_stable u f) (ev_progress u f true)
           (ev_failpfx u f) _ (hap_p1 dec) true (hap_stable dec) (hap_progress dec) (hap_failpfx dec)
           chunks c tt ms c' ra sb' rb W).
Qed.
Print Assumptions C02_event_channel.

(* HttpConnection with receive_processor = HAPSession.decrypt (AirPlay 2 control / RTSP) *)
Theorem C02_encrypted_http_client : forall dec utf8_ok first_ok chunks c ms c' ra sb' rb,
  lwhole _ _ _ (hap_p1 dec) (httpc_p1_nn utf8_ok first_ok) c [] tt [] (concat chunks) = LOut ms c' ra sb' rb ->
  lfeeds _ _ _ (hap_p1 dec) (httpc_p1 utf8_ok first_ok) false c [] tt [] chunks = LOut ms c' ra sb' rb /\
  lwhole _ _ _ (hap_p1 dec) (httpc_p1 utf8_ok first_ok) c [] tt [] (concat chunks) = LOut ms c' ra sb' rb.
Proof.
  intros dec u f chunks c ms c' ra sb' rb W.
  exact (layered_via_strict _ _ (httpc_p1 u f) (httpc_p1_nn u f) (httpc_agree u f) (httpc_stable u f) (httpc_progress u f true)
           (httpc_failpfx u f) _ (hap_p1 dec) false (hap_stable dec) (hap_progress dec) (hap_failpfx dec)
           chunks c tt ms c' ra sb' rb W).
Qed.
Print Assumptions C02_encrypted_http_client.

(* ---- valid streams (Spec.v): the concatenation of k encoded frames, cut anywhere, delivers
   exactly those k frames in order and leaves an empty buffer. *)
Theorem C02_mrp_valid_stream : forall dec pb_ok s frames chunks,
  concat chunks = stream _ mrp_enc frames ->
  feeds (mrp_p1 dec pb_ok) s [] chunks =
  Out (delivered _ _ _ (mrp_handle dec pb_ok) s frames) (final _ _ _ (mrp_handle dec pb_ok) s frames) [].
Proof.
  intros dec pb s frames chunks E.
  apply (valid_stream_any_split _ _ _ (mrp_p1 dec pb) mrp_enc (mrp_handle dec pb) (fun _ _ => True)
           (mrp_stable dec pb) (mrp_progress dec pb) (mrp_failpfx dec pb)); [| |exact E].
  - intros. apply mrp_one.
  - clear E. revert s. induction frames; cbn; auto.
Qed.
Print Assumptions C02_mrp_valid_stream.

Definition comp_step (dec : N -> bytes -> bytes -> option bytes) (known_type : N -> bool) (s : comp_state) (f : N * bytes) :=
  comp_handle dec known_type s (fst f :: be_enc 3 (len (snd f))) (snd f).

Theorem C02_companion_valid_stream : forall dec known_type s frames chunks,
  Forall comp_wf frames ->
  concat chunks = stream _ comp_enc frames ->
  feeds (comp_p1 dec known_type) s [] chunks =
  Out (delivered _ _ _ (comp_step dec known_type) s frames) (final _ _ _ (comp_step dec known_type) s frames) [].
Proof.
  intros dec kt s frames chunks W E.
  apply (valid_stream_any_split _ _ _ (comp_p1 dec kt) comp_enc (comp_step dec kt) (fun _ f => comp_wf f)
           (comp_stable dec kt) (comp_progress dec kt) (comp_failpfx dec kt)); [| |exact E].
  - intros. now apply comp_one.
  - clear E. revert s. induction W; cbn; auto.
Qed.
Print Assumptions C02_companion_valid_stream.

(* HAP: every block well-formed and accepted by the AEAD under the counter it meets *)
Definition hap_step (dec : N -> bytes -> bytes -> option bytes) (c : N) (ct : bytes) : bytes * N :=
  (match dec c (le_enc 2 (len ct - 16)) ct with Some p => p | None => [] end, c + 1).
Definition hap_ok (dec : N -> bytes -> bytes -> option bytes) (c : N) (ct : bytes) : Prop :=
  hap_wf ct /\ dec c (le_enc 2 (len ct - 16)) ct <> None.

Theorem C02_hap_valid_stream : forall dec c blocks chunks,
  all_ok _ _ _ (hap_step dec) (hap_ok dec) c blocks ->
  concat chunks = stream _ hap_enc blocks ->
  feeds (hap_p1 dec) c [] chunks =
  Out (delivered _ _ _ (hap_step dec) c blocks) (final _ _ _ (hap_step dec) c blocks) [].
Proof.
  intros dec c blocks chunks A E.
  apply (valid_stream_any_split _ _ _ (hap_p1 dec) hap_enc (hap_step dec) (hap_ok dec)
           (hap_stable dec) (hap_progress dec) (hap_failpfx dec)); [|exact A|exact E].
  intros s f rest [W D]. unfold hap_step. cbn [fst snd].
  destruct (dec s (le_enc 2 (len f - 16)) f) as [p|] eqn:Ed; [|congruence].
  now apply hap_one.
Qed.
Print Assumptions C02_hap_valid_stream.

Theorem C02_datastream_valid_stream : forall handler_ok frames chunks,
  Forall (fun m => ds_wf m /\ handler_ok m = true) frames ->
  concat chunks = stream _ ds_enc frames ->
  feeds (ds_p1 handler_ok) tt [] chunks = Out frames tt [].
Proof.
  intros ok frames chunks W E.
  assert (ONE : forall (s : unit) (f : ds_msg) (rest : bytes), ds_wf f /\ ok f = true ->
                ds_p1 ok s (ds_enc f ++ rest) = Frame (fst (f, tt)) (snd (f, tt)) rest).
  { intros s f rest [Hw Ho]. destruct s. now apply ds_one. }
  rewrite (valid_stream_any_split _ _ _ (ds_p1 ok) ds_enc (fun _ m => (m, tt)) (fun _ m => ds_wf m /\ ok m = true)
           (ds_stable ok) (ds_progress ok) (ds_failpfx ok) ONE frames tt chunks); [| |exact E].
  - f_equal.
    + clear. induction frames; cbn; congruence.
    + clear. induction frames; cbn; auto.
  - clear E ONE. induction W; cbn; auto.
Qed.
Print Assumptions C02_datastream_valid_stream.

(* ---- HTTP head round trip (partial: header names/values without CR, names without ':', the
   Content-Length header - if any - a plain decimal equal to the body length, no body without it):
   what the formatter wrote is what the parser reads back, whatever follows. *)
Theorem C02_http_roundtrip_partial : forall utf8_ok first hdrs body rest,
  clean first ->
  Forall (fun kv => clean (fst kv) /\ clean (snd kv)) hdrs ->
  Forall (fun kv => ~ In 58 (fst kv)) hdrs ->
  utf8_ok (first ++ concat (map (fun kv => CRLF ++ line_of kv) hdrs)) = true ->
  cl_of (cid_of hdrs) = CLInt (Z.of_N (len body)) ->
  parse_http_message utf8_ok (format_head first hdrs ++ body ++ rest) = HMsg first (cid_of hdrs) body rest.
Proof. intro u. exact (http_roundtrip u false). Qed.
Print Assumptions C02_http_roundtrip_partial.

(* a well-formed HTTP message as a frame of the client connection *)
Definition http_enc (m : http_msg) : bytes := format_head (fst (fst m)) (snd (fst m)) ++ snd m.
Definition http_wf (utf8_ok first_ok : bytes -> bool) (m : http_msg) : Prop :=
  let '(first, hdrs, body) := m in
  clean first /\ Forall (fun kv => clean (fst kv) /\ clean (snd kv)) hdrs /\ Forall (fun kv => ~ In 58 (fst kv)) hdrs /\
  utf8_ok (first ++ concat (map (fun kv => CRLF ++ line_of kv) hdrs)) = true /\
  cl_of (cid_of hdrs) = CLInt (Z.of_N (len body)) /\ first_ok first = true.
Definition http_delivered (m : http_msg) : http_msg := (fst (fst m), cid_of (snd (fst m)), snd m).

Theorem C02_http_client_valid_stream : forall utf8_ok first_ok msgs chunks,
  Forall (http_wf utf8_ok first_ok) msgs ->
  concat chunks = stream _ http_enc msgs ->
  feeds (httpc_p1 utf8_ok first_ok) tt [] chunks = Out (map http_delivered msgs) tt [].
Proof.
  intros u f msgs chunks W E.
  assert (ONE : forall (s : unit) (m : http_msg) (rest : bytes), http_wf u f m ->
                httpc_p1_nn u f s (http_enc m ++ rest) = Frame (fst (http_delivered m, tt)) (snd (http_delivered m, tt)) rest).
  { intros s [[first hdrs] body] rest (H1 & H2 & H3 & H4 & H5 & H6). unfold httpc_p1_nn, httpc_gen, http_enc. cbn [fst snd].
    rewrite <- app_assoc, (http_roundtrip u true first hdrs body rest H1 H2 H3 H4 H5), H6. reflexivity. }
  apply (feeds_agree _ _ (httpc_p1 u f) (httpc_p1_nn u f) (httpc_agree u f)).
  rewrite (valid_stream_any_split _ _ _ (httpc_p1_nn u f) http_enc (fun _ m => (http_delivered m, tt)) (fun _ m => http_wf u f m)
           (httpc_stable u f) (httpc_progress u f true) (httpc_failpfx u f) ONE msgs tt chunks); [| |exact E].
  - f_equal.
    + clear. induction msgs; cbn; congruence.
    + clear. induction msgs; cbn; auto.
  - clear E ONE. induction W; cbn; auto.
Qed.
Print Assumptions C02_http_client_valid_stream.

(* ---- progress for EVERY integer Content-Length (negative ones included, Python slice rules):
   whenever _parse_http_message returns a message, what it leaves is at least 4 bytes shorter
   than what it was given.  This is the fact the fuel theorem below rests on. *)
Theorem C02_http_parse_consumes : forall utf8_ok x first hdrs body rest,
  parse_http_message utf8_ok x = HMsg first hdrs body rest -> (length rest + 4 <= length x)%nat.
Proof. intros u x f d b r. exact (phm_progress u false x f d b r). Qed.
Print Assumptions C02_http_parse_consumes.

(* ---- termination: the `while buffer` loops never run out of the fuel |buffer| *)
Theorem C02_loops_terminate :
  (forall dec pb_ok s buf, run (mrp_p1 dec pb_ok) s buf <> OutOfFuel) /\
  (forall dec kt s buf, run (comp_p1 dec kt) s buf <> OutOfFuel) /\
  (forall dec c buf, run (hap_p1 dec) c buf <> OutOfFuel) /\
  (forall ok s buf, run (ds_p1 ok) s buf <> OutOfFuel) /\
  (forall u f s buf, run (httpc_p1 u f) s buf <> OutOfFuel) /\
  (forall u f s buf, run (httpd_p1 u f) s buf <> OutOfFuel) /\
  (forall u f s buf, run (ev_p1 u f) s buf <> OutOfFuel).
Proof.
  repeat split; intros; unfold run; apply drain_fuel; try apply le_n.
  - apply mrp_progress. - apply comp_progress. - apply hap_progress. - apply ds_progress.
  - apply (httpc_progress _ _ false). - apply (httpd_progress _ _ false). - apply (ev_progress _ _ false).
Qed.
Print Assumptions C02_loops_terminate.

(* ---- outside valid streams: a blank request line makes the event channel's delivery depend on
   the segmentation (the following complete request waits for the next read). *)
Theorem C02_event_blank_request_line_refuted :
  exists utf8_ok first_ok c1 c2, concat c1 = concat c2 /\
    ev_feeds utf8_ok first_ok [] c1 <> ev_feeds utf8_ok first_ok [] c2.
Proof.
  exists (fun _ => true), (fun _ => true),
         [CRLF2 ++ [71;69;84;32;47;32;72;47;49;13;10;13;10]], [CRLF2; [71;69;84;32;47;32;72;47;49;13;10;13;10]].
  split; [reflexivity|].
  destruct evchan_blank_line_depends_on_segmentation as [A B]. cbv zeta in A, B. rewrite A, B. discriminate.
Qed.
Print Assumptions C02_event_blank_request_line_refuted.

(* ---- non-vacuity: concrete non-trivial streams meeting the hypotheses *)
Example C02_ex_mrp :
  feeds (mrp_p1 (fun _ d => Some d) (fun _ => true)) (Some 5) [] [[2; 7]; [8; 1]; [9]; []; [0]]
  = Out [MDelivered [7; 8]; MDelivered [9]; MDelivered []] (Some 8) [].
Proof. vm_compute. reflexivity. Qed.

Example C02_ex_hap_layered :
  let dec := fun (c : N) (aad ct : bytes) => Some (firstn (length ct - 16) ct) in
  let hdr := [0;0;0;34] ++ repeat 1 12 ++ repeat 2 4 ++ [0;0;0;0;0;0;0;9] ++ [0;0;0;0] in
  let plain := hdr ++ [5; 6] in
  let stream := [20; 0] ++ firstn 20 plain ++ repeat 0 16 ++ [14; 0] ++ skipn 20 plain ++ repeat 0 16 in
  lwhole _ _ _ (hap_p1 dec) (ds_p1 (fun _ => true)) 0 [] tt [] stream =
    LOut [{| ds_type := repeat 1 12; ds_cmd := repeat 2 4; ds_seqno := 9; ds_pad := 0; ds_payload := [5; 6] |}] 2 [] tt []
  /\ lfeeds _ _ _ (hap_p1 dec) (ds_p1 (fun _ => true)) true 0 [] tt [] (cut_at 0 [1; 30; 45]%nat stream) =
    LOut [{| ds_type := repeat 1 12; ds_cmd := repeat 2 4; ds_seqno := 9; ds_pad := 0; ds_payload := [5; 6] |}] 2 [] tt [].
Proof. split; vm_compute; reflexivity. Qed.

Example C02_ex_http_roundtrip :
  let first := [72;84;84;80;47;49;46;49;32;50;48;48;32;79;75] in           (* HTTP/1.1 200 OK *)
  let hdrs := [([67;83;101;113], [49]); (CONTENT_LENGTH, [52])] in         (* CSeq: 1, Content-Length: 4 *)
  http_wf (fun _ => true) (fun _ => true) (first, hdrs, [13;10;13;10]) /\
  feeds (httpc_p1 (fun _ => true) (fun _ => true)) tt []
        (cut_at 0 [3; 16; 17; 40; 41]%nat (http_enc (first, hdrs, [13;10;13;10]) ++ http_enc (first, [], [])))
  = Out [(first, hdrs, [13;10;13;10]); (first, [], [])] tt [].
Proof.
  split.
  - unfold http_wf, clean. cbn.
    repeat match goal with
           | |- _ /\ _ => split
           | |- Forall _ [] => apply Forall_nil
           | |- Forall _ (_ :: _) => apply Forall_cons
           | |- ~ _ => cbn; intuition discriminate
           | |- _ = _ => reflexivity
           end.
  - vm_compute. reflexivity.
Qed.

(* three coalesced requests, the handler raises on the first and returns None for the second *)
Example C02_ex_server_handler_raises :
  let r := fun k => [71;69;84;32;47;48+k;32;72;47;49;13;10;13;10] in          (* "GET /k H/1" CRLF CRLF *)
  let h := fun m : http_msg => match nth 5 (fst (fst m)) 0 with 49 => HRaises | 50 => HNothing | _ => HResponse end in
  httpd_loop (fun _ => true) (fun _ => true) h 100 (r 1 ++ r 2 ++ r 3) =
    ([SReq (firstn 10 (r 1), [], []) A500; SReq (firstn 10 (r 2), [], []) A404; SReq (firstn 10 (r 3), [], []) AHandler], [])
  /\ httpd_feeds (fun _ => true) (fun _ => true) h [] (cut_at 0 [3; 14; 20]%nat (r 1 ++ r 2 ++ r 3)) =
    ([SReq (firstn 10 (r 1), [], []) A500; SReq (firstn 10 (r 2), [], []) A404; SReq (firstn 10 (r 3), [], []) AHandler], []).
Proof. split; vm_compute; reflexivity. Qed.

(* the listener raises on the first of three coalesced MRP messages: all three are handed over *)
Example C02_ex_mrp_consumer_raises :
  run (mrpc_p1 (fun _ d => Some d) (fun _ => true) (fun d => negb (bytes_beq d [7])) ) None [1; 7; 1; 8; 1; 9]
  = Out [MHanded [7] false; MHanded [8] true; MHanded [9] true] None [].
Proof. vm_compute. reflexivity. Qed.

(* two coalesced sync frames, the listener raises on the protobuf of the first: both are handed over
   and both are answered *)
Example C02_ex_datastream_consumer_raises :
  let hdr := fun n => [0;0;0;33] ++ SYNC ++ repeat 0 8 ++ repeat 2 4 ++ [0;0;0;0;0;0;0;n] ++ [0;0;0;0] in
  map (fun x => (dsn_handed x, dsn_reply x))
      (match run (dsc_p1 (fun _ => true) (fun pl => [pl]) (fun pb => negb (bytes_beq pb [7]))) tt (hdr 1 ++ [7] ++ hdr 2 ++ [8])
       with Out ms _ _ => ms | _ => [] end)
  = [([([7], false)], true); ([([8], true)], true)].
Proof. vm_compute. reflexivity. Qed.
