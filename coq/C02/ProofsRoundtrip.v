(* C02/C04 - HTTP head round trip: what format_head wrote, parse_http_message reads back. *)
From Coq Require Import NArith ZArith List Bool Arith Lia.
From PV Require Import Common.Cases Common.Framing Common.Endian C02.Model C02.ProofsBase C02.ProofsSpec.
Import ListNotations.
Local Open Scope N_scope.

Definition line_of (kv : bytes * bytes) : bytes := fst kv ++ COLSP ++ snd kv.
Definition clean (l : bytes) : Prop := ~ In 13 l.

Lemma format_head_lines first hdrs :
  format_head first hdrs = (first ++ concat (map (fun kv => CRLF ++ line_of kv) hdrs)) ++ CRLF2.
Proof. unfold format_head, line_of. now rewrite app_assoc. Qed.

Section Scan.
  Variables (c : N) (s : bytes).
  Let sep := c :: s.

  Lemma prefixb_refl : forall p r, prefixb p (p ++ r) = true.
  Proof. induction p as [|a p IH]; intro r; [reflexivity|]. cbn [prefixb app]. now rewrite N.eqb_refl, IH. Qed.

  Lemma find_sep_here r : find_sep sep (sep ++ r) = Some ([], r).
  Proof.
    unfold sep. cbn [app find_sep]. change (c :: s ++ r) with ((c :: s) ++ r).
    rewrite prefixb_refl. now rewrite skipn_exact.
  Qed.

  Lemma find_sep_skip : forall a X, ~ In c a ->
    find_sep sep (a ++ X) = match find_sep sep X with Some (p, r) => Some (a ++ p, r) | None => None end.
  Proof.
    induction a as [|b a IH]; intros X H.
    - cbn [app]. destruct (find_sep sep X) as [[p r]|]; reflexivity.
    - cbn [app find_sep]. unfold sep at 1. cbn [prefixb].
      replace (c =? b) with false by (symmetry; apply N.eqb_neq; intro E; apply H; left; now subst).
      cbn [andb]. rewrite IH by (intro I; apply H; now right).
      destruct (find_sep sep X) as [[p r]|]; reflexivity.
  Qed.

  Lemma find_sep_none : forall a, ~ In c a -> find_sep sep a = None.
  Proof.
    induction a as [|b a IH]; intro H; [reflexivity|].
    cbn [find_sep]. unfold sep at 1. cbn [prefixb].
    replace (c =? b) with false by (symmetry; apply N.eqb_neq; intro E; apply H; left; now subst).
    cbn [andb]. rewrite IH by (intro I; apply H; now right). reflexivity.
  Qed.

  Lemma find_sep_first a r : ~ In c a -> find_sep sep (a ++ sep ++ r) = Some (a, r).
  Proof. intro H. rewrite find_sep_skip by assumption. rewrite find_sep_here. now rewrite app_nil_r. Qed.
End Scan.

Lemma clean_line kv : clean (fst kv) -> clean (snd kv) -> clean (line_of kv).
Proof.
  unfold clean, line_of, COLSP. intros H1 H2 I. apply in_app_or in I as [I|I]; [auto|].
  cbn in I. destruct I as [I|[I|I]]; try discriminate. auto.
Qed.

Lemma line_nonempty kv : exists b t, line_of kv = b :: t /\ (clean (fst kv) -> b <> 13).
Proof.
  unfold line_of, COLSP. destruct (fst kv) as [|b t] eqn:E.
  - exists 58, (32 :: snd kv). split; [reflexivity|]. intros _. discriminate.
  - exists b, (t ++ [58; 32] ++ snd kv). split; [reflexivity|]. intros H Eb. apply H. left. now symmetry.
Qed.

Lemma find_after_crlf : forall seg X b l, seg = b :: l -> b <> 13 ->
  find_sep CRLF2 (CRLF ++ seg ++ X) =
  match find_sep CRLF2 (seg ++ X) with Some (p, r) => Some (CRLF ++ p, r) | None => None end.
Proof.
  intros seg X b l -> Hb. unfold CRLF, CRLF2. cbn [app].
  set (Y := l ++ X).
  change (find_sep [13; 10; 13; 10] (13 :: 10 :: b :: Y))
    with (if prefixb [13; 10; 13; 10] (13 :: 10 :: b :: Y) then Some ([], skipn 4 (13 :: 10 :: b :: Y))
          else match (if prefixb [13; 10; 13; 10] (10 :: b :: Y) then Some ([], skipn 4 (10 :: b :: Y))
                      else match find_sep [13; 10; 13; 10] (b :: Y) with
                           | Some (a, r) => Some (10 :: a, r) | None => None end) with
               | Some (a, r) => Some (13 :: a, r) | None => None end).
  cbn [prefixb]. replace (13 =? b) with false by (symmetry; apply N.eqb_neq; congruence).
  cbn [N.eqb Pos.eqb andb].
  destruct (find_sep [13; 10; 13; 10] (b :: Y)) as [[a r]|]; reflexivity.
Qed.

(* the blank line that ends the head is found after the last header line *)
Lemma find_end_lines : forall hdrs R,
  Forall (fun kv => clean (fst kv) /\ clean (snd kv)) hdrs ->
  find_sep CRLF2 (concat (map (fun kv => CRLF ++ line_of kv) hdrs) ++ CRLF2 ++ R)
  = Some (concat (map (fun kv => CRLF ++ line_of kv) hdrs), R).
Proof.
  induction hdrs as [|kv t IH]; intros R H.
  - cbn [map concat app]. apply (find_sep_here 13 [10; 13; 10]).
  - inversion H as [|? ? [Hk Hv] Ht]; subst. cbn [map concat]. rewrite <- !app_assoc.
    destruct (line_nonempty kv) as (b & l & El & Hb). specialize (Hb Hk).
    pose proof (clean_line kv Hk Hv) as Hc.
    set (Z := concat (map (fun kv0 => CRLF ++ line_of kv0) t)) in *.
    rewrite (find_after_crlf (line_of kv) (Z ++ CRLF2 ++ R) b l El Hb).
    change CRLF2 with (13 :: [10; 13; 10]) at 1.
    rewrite find_sep_skip by exact Hc. change (13 :: [10; 13; 10]) with CRLF2.
    rewrite (IH R Ht). reflexivity.
Qed.

Lemma split_lines_head : forall hdrs a fuel, (length hdrs <= fuel)%nat -> clean a ->
  Forall (fun kv => clean (fst kv) /\ clean (snd kv)) hdrs ->
  split_on fuel CRLF (a ++ concat (map (fun kv => CRLF ++ line_of kv) hdrs)) = a :: map line_of hdrs.
Proof.
  unfold CRLF. induction hdrs as [|kv t IH]; intros a fuel Hf Ha H.
  - cbn [map concat]. rewrite app_nil_r.
    destruct fuel; cbn [split_on]; [reflexivity|].
    now rewrite (find_sep_none 13 [10] a Ha).
  - inversion H as [|? ? [Hk Hv] Ht]; subst. destruct fuel as [|f]; [simpl in Hf; lia|].
    cbn [map concat split_on]. rewrite <- app_assoc.
    rewrite (find_sep_first 13 [10] a _ Ha).
    rewrite IH; [reflexivity|simpl in Hf; lia|now apply clean_line|assumption].
Qed.

Lemma key_values_lines : forall hdrs, Forall (fun kv => ~ In 58 (fst kv)) hdrs ->
  key_values (map line_of hdrs) = Some hdrs.
Proof.
  unfold line_of, COLSP. induction hdrs as [|[k v] t IH]; intro H; [reflexivity|].
  inversion H; subst. cbn [map key_values fst snd]. unfold COLSP.
  rewrite (find_sep_first 58 [32] k v) by assumption. now rewrite IH.
Qed.

Lemma filter_lines hdrs : filter nonempty (map line_of hdrs) = map line_of hdrs.
Proof.
  induction hdrs as [|kv t IH]; [reflexivity|]. cbn [map filter].
  destruct (line_nonempty kv) as (b & l & El & _). rewrite El at 1. cbn [nonempty]. now rewrite IH.
Qed.

Definition cl_of := content_length.

Lemma py_exact (body rest : bytes) :
  py_to (Z.of_N (len body)) (body ++ rest) = body /\ py_from (Z.of_N (len body)) (body ++ rest) = rest.
Proof.
  unfold py_to, py_from, py_index, len.
  replace (Z.of_N (N.of_nat (length body)) <? 0)%Z with false by (symmetry; apply Z.ltb_ge; lia).
  replace (Z.to_nat (Z.of_N (N.of_nat (length body)))) with (length body) by lia.
  split; [apply firstn_exact|apply skipn_exact].
Qed.

Section RT.
  Variable utf8_ok : bytes -> bool.

  (* for the code as written (strict = false) and for the strict parser alike *)
  Theorem http_roundtrip : forall strict first hdrs body rest,
    clean first ->
    Forall (fun kv => clean (fst kv) /\ clean (snd kv)) hdrs ->
    Forall (fun kv => ~ In 58 (fst kv)) hdrs ->
    utf8_ok (first ++ concat (map (fun kv => CRLF ++ line_of kv) hdrs)) = true ->
    cl_of (cid_of hdrs) = CLInt (Z.of_N (len body)) ->
    parse_http_message_gen utf8_ok strict (format_head first hdrs ++ body ++ rest) = HMsg first (cid_of hdrs) body rest.
  Proof.
    intros strict first hdrs body rest Hf Hc Hk Hu Hcl.
    rewrite format_head_lines. unfold parse_http_message_gen.
    set (L := concat (map (fun kv => CRLF ++ line_of kv) hdrs)) in *.
    replace (((first ++ L) ++ CRLF2) ++ body ++ rest) with (first ++ L ++ CRLF2 ++ body ++ rest)
      by (now rewrite <- !app_assoc).
    change CRLF2 with (13 :: [10; 13; 10]) at 1.
    rewrite find_sep_skip by exact Hf. change (13 :: [10; 13; 10]) with CRLF2.
    unfold L at 1. rewrite find_end_lines by assumption. fold L.
    rewrite Hu. cbn [negb].
    unfold split_lines.
    assert (ES : split_on (length (first ++ L)) CRLF (first ++ L) = first :: map line_of hdrs).
    { unfold L. apply split_lines_head; try assumption.
      rewrite app_length. clear. induction hdrs as [|kv t IH]; cbn [map concat length]; [lia|].
      rewrite !app_length. cbn [CRLF length]. lia. }
    rewrite !ES. cbn [tl hd]. rewrite filter_lines, key_values_lines by assumption.
    unfold cl_of in Hcl. rewrite Hcl.
    replace (Z.of_N (len body) <? 0)%Z with false by (symmetry; apply Z.ltb_ge; lia).
    rewrite andb_false_r.
    replace (Z.of_N (len (body ++ rest)) <? Z.of_N (len body))%Z with false
      by (symmetry; apply Z.ltb_ge; rewrite len_app; lia).
    destruct (py_exact body rest) as [E1 E2]. now rewrite E1, E2.
  Qed.
End RT.
