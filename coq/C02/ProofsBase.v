(* C02 - list and scanning lemmas shared by the per-connection law proofs. *)
From Coq Require Import NArith ZArith List Bool Arith Lia.
From PV Require Import Common.Cases Common.Framing Common.Endian C02.Model.
Import ListNotations.
Local Open Scope N_scope.

Lemma firstn_app_le {A} (n : nat) (x y : list A) : (n <= length x)%nat -> firstn n (x ++ y) = firstn n x.
Proof.
  intro H. rewrite firstn_app. replace (n - length x)%nat with 0%nat by lia.
  cbn [firstn]. apply app_nil_r.
Qed.

Lemma skipn_app_le {A} (n : nat) (x y : list A) : (n <= length x)%nat -> skipn n (x ++ y) = skipn n x ++ y.
Proof.
  intro H. rewrite skipn_app. replace (n - length x)%nat with 0%nat by lia. reflexivity.
Qed.

Lemma len_app x y : len (x ++ y) = len x + len y.
Proof. unfold len. rewrite app_length. lia. Qed.

Lemma len_nat x n : (n <= len x) -> (N.to_nat n <= length x)%nat.
Proof. unfold len. lia. Qed.

Lemma take_app_le n x y : n <= len x -> take n (x ++ y) = take n x.
Proof. intro H. unfold take. apply firstn_app_le. now apply len_nat. Qed.

Lemma drop_app_le n x y : n <= len x -> drop n (x ++ y) = drop n x ++ y.
Proof. intro H. unfold drop. apply skipn_app_le. now apply len_nat. Qed.

Lemma drop_length n x : n <= len x -> length (drop n x) = (length x - N.to_nat n)%nat.
Proof. intro H. unfold drop. apply skipn_length. Qed.

(* ---- read_variant *)
Lemma read_var_app : forall x mul acc n raw y,
  read_var x mul acc = Some (n, raw) -> read_var (x ++ y) mul acc = Some (n, raw ++ y).
Proof.
  induction x as [|b t IH]; intros mul acc n raw y H; cbn [read_var app] in *; [discriminate|].
  destruct (b <? 128).
  - now inversion H.
  - now apply IH.
Qed.

Lemma read_var_shorter : forall x mul acc n raw,
  read_var x mul acc = Some (n, raw) -> (length raw < length x)%nat.
Proof.
  induction x as [|b t IH]; intros mul acc n raw H; cbn [read_var] in H; [discriminate|].
  destruct (b <? 128).
  - inversion H; subst. simpl. lia.
  - apply IH in H. simpl. lia.
Qed.

(* ---- prefixb / find_sep *)
Lemma prefixb_app : forall p x y, prefixb p x = true -> prefixb p (x ++ y) = true.
Proof.
  induction p as [|a p IH]; intros x y H; [reflexivity|].
  destruct x as [|b x]; cbn [prefixb app] in *; [discriminate|].
  apply andb_true_iff in H as [H1 H2]. rewrite H1. cbn. now apply IH.
Qed.

Lemma prefixb_length : forall p x, prefixb p x = true -> (length p <= length x)%nat.
Proof.
  induction p as [|a p IH]; intros x H; [simpl; lia|].
  destruct x as [|b x]; cbn [prefixb] in H; [discriminate|].
  apply andb_true_iff in H as [_ H]. apply IH in H. simpl. lia.
Qed.

Lemma prefixb_false_app : forall p x y, prefixb p x = false -> (length p <= length x)%nat -> prefixb p (x ++ y) = false.
Proof.
  induction p as [|a p IH]; intros x y H L; [discriminate|].
  destruct x as [|b x]; cbn [prefixb app length] in *; [lia|].
  destruct (a =? b); cbn in *; [|reflexivity]. apply IH; [assumption|lia].
Qed.

Lemma find_sep_length : forall sep x a r, find_sep sep x = Some (a, r) ->
  length x = (length a + length sep + length r)%nat.
Proof.
  intros sep. induction x as [|b t IH]; intros a r H.
  - cbn [find_sep] in H. destruct (prefixb sep []) eqn:P; [|discriminate].
    inversion H; subst. apply prefixb_length in P. rewrite skipn_length. cbn [length] in *. lia.
  - cbn [find_sep] in H. destruct (prefixb sep (b :: t)) eqn:P.
    + inversion H; subst. apply prefixb_length in P. rewrite skipn_length. cbn [length] in *. lia.
    + destruct (find_sep sep t) as [[a' r']|] eqn:F; [|discriminate].
      inversion H; subst. specialize (IH _ _ eq_refl). simpl. lia.
Qed.

Lemma find_sep_app : forall sep x a r y, find_sep sep x = Some (a, r) ->
  find_sep sep (x ++ y) = Some (a, r ++ y).
Proof.
  intros sep. induction x as [|b t IH]; intros a r y H.
  - cbn [find_sep] in H. destruct (prefixb sep []) eqn:P; [|discriminate].
    inversion H; subst. pose proof (prefixb_length _ _ P) as L.
    destruct sep; [|simpl in L; lia]. cbn [app]. destruct y; reflexivity.
  - cbn [find_sep] in H. destruct (prefixb sep (b :: t)) eqn:P.
    + inversion H; subst. change ((b :: t) ++ y) with (b :: (t ++ y)).
      cbn [find_sep]. change (b :: (t ++ y)) with ((b :: t) ++ y).
      rewrite (prefixb_app _ _ y P). rewrite skipn_app_le by now apply prefixb_length. reflexivity.
    + destruct (find_sep sep t) as [[a' r']|] eqn:F; [|discriminate].
      inversion H; subst. change ((b :: t) ++ y) with (b :: (t ++ y)).
      cbn [find_sep]. change (b :: (t ++ y)) with ((b :: t) ++ y).
      rewrite prefixb_false_app; [|assumption|].
      * rewrite (IH _ _ y eq_refl). reflexivity.
      * apply find_sep_length in F. simpl. lia.
Qed.

(* one unfolding of the drain loop on a non-empty buffer *)
Lemma drain_S {S M E : Type} (p : S -> bytes -> step N S M E) f s b t :
  drain p (Datatypes.S f) s (b :: t) =
  match p s (b :: t) with
  | Need => Out [] s (b :: t)
  | Fail e => Failed [] e
  | Frame m s' r =>
      match drain p f s' r with
      | Out ms s2 b2 => Out (m :: ms) s2 b2
      | Failed ms e => Failed (m :: ms) e
      | OutOfFuel => OutOfFuel
      end
  end.
Proof. reflexivity. Qed.

(* a parser that never fails gives a loop that never fails *)
Lemma drain_never_fails {S M : Type} (p : S -> bytes -> step N S M err) :
  (forall s x e, p s x <> Fail e) -> forall fuel s x ms e, drain p fuel s x <> Failed ms e.
Proof.
  intros NF. induction fuel as [|f IH]; intros s x ms e.
  - destruct x; discriminate.
  - destruct x as [|b t]; [discriminate|]. rewrite drain_S.
    destruct (p s (b :: t)) as [|e0|m s' r] eqn:P; try discriminate.
    + now apply NF in P.
    + specialize (IH s' r). destruct (drain p f s' r); try discriminate.
      intro H. inversion H; subst. eapply IH; reflexivity.
Qed.

(* Two parsers that coincide wherever the second one does not fail: every loop run / sequence of
   reads that the second completes without failure, the first completes identically. *)
Section Agree.
  Variables (S M : Type).
  Variables p q : S -> bytes -> step N S M err.
  Hypothesis agree : forall s x, (forall e, q s x <> Fail e) -> p s x = q s x.

  Lemma drain_agree : forall fuel s x ms s' r,
    drain q fuel s x = Out ms s' r -> drain p fuel s x = Out ms s' r.
  Proof.
    induction fuel as [|f IH]; intros s x ms s' r H.
    - destruct x; exact H.
    - destruct x as [|b t]; [exact H|]. rewrite drain_S in *.
      destruct (q s (b :: t)) as [|e|m s1 r1] eqn:Q; try discriminate.
      + rewrite agree by (rewrite Q; discriminate). rewrite Q. exact H.
      + rewrite agree by (rewrite Q; discriminate). rewrite Q.
        destruct (drain q f s1 r1) as [ms1 s2 r2| |] eqn:D; try discriminate.
        rewrite (IH _ _ _ _ _ D). exact H.
  Qed.

  Lemma run_agree s x ms s' r : run q s x = Out ms s' r -> run p s x = Out ms s' r.
  Proof. apply drain_agree. Qed.

  Lemma feeds_agree : forall chunks s buf ms s' r,
    feeds q s buf chunks = Out ms s' r -> feeds p s buf chunks = Out ms s' r.
  Proof.
    induction chunks as [|c cs IH]; intros s buf ms s' r H; [exact H|].
    cbn [feeds] in *.
    destruct (run q s (buf ++ c)) as [ms1 s1 r1| |] eqn:R; try discriminate.
    rewrite (run_agree _ _ _ _ _ R).
    destruct (feeds q s1 r1 cs) as [ms2 s2 r2| |] eqn:F; try discriminate.
    rewrite (IH _ _ _ _ _ F). exact H.
  Qed.
End Agree.

(* decorating the delivered messages keeps the parser laws *)
Section MapMsg.
  Variables (S M M' : Type).
  Variable p : S -> bytes -> step N S M err.
  Variable g : M -> M'.
  Let q := fun s x => step_map g (p s x).

  Lemma map_stable :
    (forall s x m s' r y, p s x = Frame m s' r -> p s (x ++ y) = Frame m s' (r ++ y)) ->
    forall s x m s' r y, q s x = Frame m s' r -> q s (x ++ y) = Frame m s' (r ++ y).
  Proof.
    intros H s x m s' r y E. unfold q in *. destruct (p s x) as [|e|m0 s0 r0] eqn:P; try discriminate.
    rewrite (H _ _ _ _ _ y P). cbn in *. now inversion E.
  Qed.

  Lemma map_progress :
    (forall s x m s' r, p s x = Frame m s' r -> (length r < length x)%nat) ->
    forall s x m s' r, q s x = Frame m s' r -> (length r < length x)%nat.
  Proof.
    intros H s x m s' r E. unfold q in *. destruct (p s x) as [|e|m0 s0 r0] eqn:P; try discriminate.
    cbn in E. inversion E; subst. eapply H; eauto.
  Qed.

  Lemma map_failpfx :
    (forall s x y e, p s x = Fail e -> exists e', p s (x ++ y) = Fail e') ->
    forall s x y e, q s x = Fail e -> exists e', q s (x ++ y) = Fail e'.
  Proof.
    intros H s x y e E. unfold q in *. destruct (p s x) as [|e0|m0 s0 r0] eqn:P; try discriminate.
    destruct (H _ _ y _ P) as [e' E']. rewrite E'. cbn. eauto.
  Qed.
End MapMsg.

Lemma map_agree {S M M'} (p p' : S -> bytes -> step N S M err) (g : M -> M') :
  (forall s x, (forall e, p' s x <> Fail e) -> p s x = p' s x) ->
  forall s x, (forall e, step_map g (p' s x) <> Fail e) -> step_map g (p s x) = step_map g (p' s x).
Proof.
  intros H s x NF. rewrite H; [reflexivity|]. intros e E. rewrite E in NF. eapply NF. reflexivity.
Qed.

Lemma map_never_fails {S M M'} (p : S -> bytes -> step N S M err) (g : M -> M') :
  (forall s x e, p s x <> Fail e) -> forall s x e, step_map g (p s x) <> Fail e.
Proof. intros H s x e E. destruct (p s x) eqn:P; try discriminate. cbn in E. now apply H in P. Qed.

(* a decorated parser fails only where the undecorated one does *)
Lemma drain_map_failed {S M M'} (p : S -> bytes -> step N S M err) (g : M -> M') :
  forall fuel s x ms e, drain (fun s x => step_map g (p s x)) fuel s x = Failed ms e ->
  exists ms', drain p fuel s x = Failed ms' e.
Proof.
  induction fuel as [|f IH]; intros s x ms e H.
  - destruct x; discriminate.
  - destruct x as [|b t]; [discriminate|]. rewrite drain_S. rewrite drain_S in H. cbv beta in H.
    destruct (p s (b :: t)) as [|e0|m s' r] eqn:P; cbn [step_map] in H; try discriminate.
    + inversion H; subst. eexists; reflexivity.
    + destruct (drain (fun s x => step_map g (p s x)) f s' r) as [? ? ?|ms1 e1|] eqn:D; try discriminate.
      inversion H; subst. destruct (IH _ _ _ _ D) as [ms' E]. rewrite E. eexists; reflexivity.
Qed.
