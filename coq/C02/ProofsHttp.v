(* C02 - parser laws for the three HTTP loops, and the exact loops of BasicHttpServer and
   EventChannel related to Framing.run. *)
From Coq Require Import NArith List Bool Arith Lia.
From PV Require Import Common.Cases Common.Framing Common.Endian C02.Model C02.ProofsBase C02.ProofsLaws.
Import ListNotations.
Local Open Scope N_scope.

Section Http.
  Variable utf8_ok : bytes -> bool.
  Variable resp_first_ok : bytes -> bool.
  Variable req_first_ok : bytes -> bool.
  Local Notation phm := (parse_http_message utf8_ok).

  Lemma phm_msg_app : forall x f d b r y, phm x = HMsg f d b r -> phm (x ++ y) = HMsg f d b (r ++ y).
  Proof.
    unfold parse_http_message. intros x f d b r y H.
    destruct (find_sep CRLF2 x) as [[hs body]|] eqn:F; [|discriminate].
    rewrite (find_sep_app _ _ _ _ y F).
    destruct (negb (utf8_ok hs)); [discriminate|].
    destruct (key_values _) as [kvs|]; [|discriminate].
    destruct (match cid_get (cid_of kvs) CONTENT_LENGTH with None => Some 0 | Some v => parse_cl v end) as [cl|]; [|discriminate].
    destruct (len body <? cl) eqn:L; [discriminate|].
    rewrite (ltb_app_false _ y _ L). apply N.ltb_ge in L.
    injection H as Hf Hd Hb Hr. subst f d b r.
    rewrite take_app_le, drop_app_le by assumption. reflexivity.
  Qed.

  Lemma phm_fail_app : forall x e y, phm x = HFail e -> phm (x ++ y) = HFail e.
  Proof.
    unfold parse_http_message. intros x e y H.
    destruct (find_sep CRLF2 x) as [[hs body]|] eqn:F; [|discriminate].
    rewrite (find_sep_app _ _ _ _ y F).
    destruct (negb (utf8_ok hs)); [assumption|].
    destruct (key_values _) as [kvs|]; [|assumption].
    destruct (match cid_get (cid_of kvs) CONTENT_LENGTH with None => Some 0 | Some v => parse_cl v end) as [cl|]; [|assumption].
    destruct (len body <? cl) eqn:L; discriminate.
  Qed.

  Lemma phm_progress : forall x f d b r, phm x = HMsg f d b r -> (length r + 4 <= length x)%nat.
  Proof.
    unfold parse_http_message. intros x f d b r H.
    destruct (find_sep CRLF2 x) as [[hs body]|] eqn:F; [|discriminate].
    destruct (negb (utf8_ok hs)); [discriminate|].
    destruct (key_values _) as [kvs|]; [|discriminate].
    destruct (match cid_get (cid_of kvs) CONTENT_LENGTH with None => Some 0 | Some v => parse_cl v end) as [cl|]; [|discriminate].
    destruct (len body <? cl) eqn:L; [discriminate|].
    injection H as Hf Hd Hb Hr. subst f d b r.
    apply find_sep_length in F. unfold drop. rewrite skipn_length. cbn [CRLF2 length] in F. lia.
  Qed.

  (* ---- HttpConnection *)
  Local Notation pc := (httpc_p1 utf8_ok resp_first_ok).

  Lemma httpc_stable : forall s x m s' r y, pc s x = Frame m s' r -> pc s (x ++ y) = Frame m s' (r ++ y).
  Proof.
    unfold httpc_p1. intros s x m s' r y H.
    destruct (parse_http_message utf8_ok x) as [|e|f d b r0] eqn:P; try discriminate.
    rewrite (phm_msg_app _ _ _ _ _ y P).
    destruct (resp_first_ok f); [|discriminate]. now inversion H.
  Qed.

  Lemma httpc_progress : forall s x m s' r, pc s x = Frame m s' r -> (length r < length x)%nat.
  Proof.
    unfold httpc_p1. intros s x m s' r H.
    destruct (parse_http_message utf8_ok x) as [|e|f d b r0] eqn:P; try discriminate.
    destruct (resp_first_ok f); [|discriminate]. inversion H; subst.
    apply phm_progress in P. lia.
  Qed.

  Lemma httpc_failpfx : forall s x y e, pc s x = Fail e -> exists e', pc s (x ++ y) = Fail e'.
  Proof.
    unfold httpc_p1. intros s x y e H.
    destruct (parse_http_message utf8_ok x) as [|e0|f d b r0] eqn:P; try discriminate.
    - rewrite (phm_fail_app _ _ y P). eauto.
    - rewrite (phm_msg_app _ _ _ _ _ y P). destruct (resp_first_ok f); [discriminate|]. eauto.
  Qed.

  (* ---- parse_request *)
  Local Notation pr := (parse_request utf8_ok req_first_ok).

  Lemma pr_frame_app : forall x m r y, pr x = RFrame m r -> pr (x ++ y) = RFrame m (r ++ y).
  Proof.
    unfold parse_request. intros x m r y H.
    destruct (parse_http_message utf8_ok x) as [|e|f d b r0] eqn:P; try discriminate.
    rewrite (phm_msg_app _ _ _ _ _ y P).
    destruct f as [|c f']; [discriminate|].
    destruct (req_first_ok (c :: f')); [|discriminate]. now inversion H.
  Qed.

  Lemma pr_fail_app : forall x e y, pr x = RFail e -> pr (x ++ y) = RFail e.
  Proof.
    unfold parse_request. intros x e y H.
    destruct (parse_http_message utf8_ok x) as [|e0|f d b r0] eqn:P; try discriminate.
    - rewrite (phm_fail_app _ _ y P). assumption.
    - rewrite (phm_msg_app _ _ _ _ _ y P).
      destruct f as [|c f']; [discriminate|].
      destruct (req_first_ok (c :: f')); [discriminate|]. assumption.
  Qed.

  Lemma pr_skip_app : forall x r y, pr x = RSkip r -> pr (x ++ y) = RSkip (r ++ y).
  Proof.
    unfold parse_request. intros x r y H.
    destruct (parse_http_message utf8_ok x) as [|e0|f d b r0] eqn:P; try discriminate.
    rewrite (phm_msg_app _ _ _ _ _ y P).
    destruct f as [|c f']; [now inversion H|].
    destruct (req_first_ok (c :: f')); discriminate.
  Qed.

  Lemma pr_frame_progress : forall x m r, pr x = RFrame m r -> (length r < length x)%nat.
  Proof.
    unfold parse_request. intros x m r H.
    destruct (parse_http_message utf8_ok x) as [|e|f d b r0] eqn:P; try discriminate.
    destruct f as [|c f']; [discriminate|].
    destruct (req_first_ok (c :: f')); [|discriminate]. inversion H; subst.
    apply phm_progress in P. lia.
  Qed.

  Lemma pr_skip_progress : forall x r, pr x = RSkip r -> (length r < length x)%nat.
  Proof.
    unfold parse_request. intros x r H.
    destruct (parse_http_message utf8_ok x) as [|e|f d b r0] eqn:P; try discriminate.
    destruct f as [|c f']; [|destruct (req_first_ok (c :: f')); discriminate].
    inversion H; subst. apply phm_progress in P. lia.
  Qed.

  (* ---- BasicHttpServer *)
  Local Notation pd := (httpd_p1 utf8_ok req_first_ok).

  Lemma httpd_stable : forall s x m s' r y, pd s x = Frame m s' r -> pd s (x ++ y) = Frame m s' (r ++ y).
  Proof.
    unfold httpd_p1. intros s x m s' r y H.
    destruct (parse_request utf8_ok req_first_ok x) eqn:P; try discriminate.
    rewrite (pr_frame_app _ _ _ y P). now inversion H.
  Qed.

  Lemma httpd_progress : forall s x m s' r, pd s x = Frame m s' r -> (length r < length x)%nat.
  Proof.
    unfold httpd_p1. intros s x m s' r H.
    destruct (parse_request utf8_ok req_first_ok x) eqn:P; try discriminate.
    inversion H; subst. now apply pr_frame_progress in P.
  Qed.

  Lemma httpd_failpfx : forall s x y e, pd s x = Fail e -> exists e', pd s (x ++ y) = Fail e'.
  Proof.
    unfold httpd_p1. intros s x y e H.
    destruct (parse_request utf8_ok req_first_ok x) eqn:P; try discriminate.
    rewrite (pr_fail_app _ _ y P). eauto.
  Qed.

  (* ---- EventChannel *)
  Local Notation pe := (ev_p1 utf8_ok req_first_ok).

  Lemma ev_stable : forall s x m s' r y, pe s x = Frame m s' r -> pe s (x ++ y) = Frame m s' (r ++ y).
  Proof.
    unfold ev_p1. intros s x m s' r y H.
    destruct (parse_request utf8_ok req_first_ok x) eqn:P; try discriminate.
    rewrite (pr_frame_app _ _ _ y P). now inversion H.
  Qed.

  Lemma ev_progress : forall s x m s' r, pe s x = Frame m s' r -> (length r < length x)%nat.
  Proof.
    unfold ev_p1. intros s x m s' r H.
    destruct (parse_request utf8_ok req_first_ok x) eqn:P; try discriminate.
    inversion H; subst. now apply pr_frame_progress in P.
  Qed.

  Lemma ev_failpfx : forall s x y e, pe s x = Fail e -> exists e', pe s (x ++ y) = Fail e'.
  Proof.
    unfold ev_p1. intros s x y e H.
    destruct (parse_request utf8_ok req_first_ok x) eqn:P; try discriminate.
    - rewrite (pr_fail_app _ _ y P). eauto.
    - rewrite (pr_skip_app _ _ y P). eauto.
  Qed.

  (* ---- the loops as written vs. the drain shape *)

  (* BasicHttpServer.data_received: what run reports as delivered is what the handler got;
     where run fails, the server answered 500 and emptied its buffer. *)
  Lemma httpd_loop_run : forall fuel buf, (length buf <= fuel)%nat ->
    httpd_loop utf8_ok req_first_ok fuel buf =
    match drain pd fuel tt buf with
    | Out ms _ r => (map SReq ms, r)
    | Failed ms e => (map SReq ms ++ [SErr500 e], [])
    | OutOfFuel => ([], buf)
    end.
  Proof.
    induction fuel as [|f IH]; intros buf Hl.
    - destruct buf; [reflexivity|simpl in Hl; lia].
    - destruct buf as [|c t]; [reflexivity|].
      cbn [httpd_loop]. rewrite drain_S. set (buf := c :: t) in *.
      assert (Epd : pd tt buf = match pr buf with
                                | RNeed | RSkip _ => Need | RFail e => Fail e | RFrame m rest => Frame m tt rest end)
        by reflexivity.
      rewrite Epd. clear Epd. unfold httpd_next.
      assert (Ebb : bytes_beq buf buf = true)
        by (apply (list_beq_eq N.eqb); [intros; apply N.eqb_eq|reflexivity]).
      destruct (parse_request utf8_ok req_first_ok buf) as [|e|r0|m r0] eqn:P.
      + rewrite Ebb. reflexivity.
      + replace (bytes_beq [] buf) with false by reflexivity.
        destruct f; reflexivity.
      + rewrite Ebb. reflexivity.
      + pose proof (pr_frame_progress _ _ _ P) as Hp.
        replace (bytes_beq r0 buf) with false.
        * rewrite IH by lia.
          destruct (drain pd f tt r0) as [ms [] r1|ms e|] eqn:D; try reflexivity.
          exfalso. revert D. apply (drain_fuel _ _ _ _ pd httpd_progress). lia.
        * symmetry. apply not_true_is_false. intro E.
          apply (list_beq_eq N.eqb) in E; [|intros; apply N.eqb_eq]. subst r0. lia.
  Qed.

  (* EventChannel.handle_received: on streams where run does not fail the loop as written IS run;
     where run fails, the messages before the failure were handled and nothing after it in this call *)
  Lemma ev_loop_run : forall fuel buf, (length buf <= fuel)%nat ->
    match drain pe fuel tt buf with
    | Out ms _ r => ev_loop utf8_ok req_first_ok fuel buf = (ms, r)
    | Failed ms e => fst (ev_loop utf8_ok req_first_ok fuel buf) = ms
    | OutOfFuel => False
    end.
  Proof.
    induction fuel as [|f IH]; intros buf Hl.
    - destruct buf; [reflexivity|simpl in Hl; lia].
    - destruct buf as [|c t]; [reflexivity|].
      cbn [ev_loop]. rewrite drain_S. set (buf := c :: t) in *.
      assert (Epe : pe tt buf = match pr buf with
                                | RNeed => Need | RSkip _ => Fail EBlankFirstLine | RFail e => Fail e
                                | RFrame m rest => Frame m tt rest end) by reflexivity.
      rewrite Epe. clear Epe.
      destruct (parse_request utf8_ok req_first_ok buf) as [|e|r0|m r0] eqn:P; try reflexivity.
      pose proof (pr_frame_progress _ _ _ P) as Hp.
      specialize (IH r0 ltac:(lia)).
      destruct (drain pe f tt r0) as [ms [] r1|ms e|] eqn:D.
      + rewrite IH. reflexivity.
      + destruct (ev_loop utf8_ok req_first_ok f r0) as [ms' b']. cbn [fst] in *. now subst.
      + assumption.
  Qed.
End Http.

(* A stream with a blank request line is not a valid stream, and there the event channel's
   loop does depend on the segmentation: the complete request after the blank line is held back
   until the next read when both arrive in one read. *)
Lemma evchan_blank_line_depends_on_segmentation :
  let all := fun _ : bytes => true in
  let req := [71;69;84;32;47;32;72;47;49;13;10;13;10] in      (* "GET / H/1" CRLF CRLF *)
  ev_feeds all all [] [CRLF2 ++ req] = ([], req) /\
  ev_feeds all all [] [CRLF2; req] = ([([71;69;84;32;47;32;72;47;49], [], [])], []).
Proof. split; vm_compute; reflexivity. Qed.
