(* C02 - parser laws for the three HTTP loops, and the exact loops of BasicHttpServer and
   EventChannel related to Framing.run. *)
From Coq Require Import NArith ZArith List Bool Arith Lia.
From PV Require Import Common.Cases Common.Framing Common.Endian C02.Model C02.ProofsBase C02.ProofsLaws.
Import ListNotations.
Local Open Scope N_scope.

(* ---- Python slices *)
Lemma py_from_length z (l : bytes) : (length (py_from z l) <= length l)%nat.
Proof. unfold py_from. rewrite skipn_length. lia. Qed.

Lemma py_to_from z (l : bytes) : py_to z l ++ py_from z l = l.
Proof. unfold py_to, py_from. apply firstn_skipn. Qed.

Lemma py_index_nonneg n z : (0 <= z)%Z -> py_index n z = Z.to_nat z.
Proof. intro H. unfold py_index. destruct (z <? 0)%Z eqn:E; [apply Z.ltb_lt in E; lia|reflexivity]. Qed.

(* a complete body with a non-negative length: the slices do not look at what follows *)
Lemma py_slices_app z (b y : bytes) : (0 <= z)%Z -> (Z.of_N (len b) <? z)%Z = false ->
  py_to z (b ++ y) = py_to z b /\ py_from z (b ++ y) = py_from z b ++ y /\
  (Z.of_N (len (b ++ y)) <? z)%Z = false.
Proof.
  intros H0 L. apply Z.ltb_ge in L. unfold py_to, py_from, len in *. rewrite !py_index_nonneg by assumption.
  assert (Z.to_nat z <= length b)%nat by lia.
  repeat split.
  - now apply firstn_app_le.
  - now apply skipn_app_le.
  - apply Z.ltb_ge. rewrite app_length. lia.
Qed.

Section Http.
  Variable utf8_ok : bytes -> bool.
  Variable resp_first_ok : bytes -> bool.
  Variable req_first_ok : bytes -> bool.
  Local Notation phm := (parse_http_message_gen utf8_ok).

  (* progress: for EVERY integer content length, also with strict = false (the code as written) *)
  Lemma phm_progress : forall strict x f d b r, phm strict x = HMsg f d b r -> (length r + 4 <= length x)%nat.
  Proof.
    unfold parse_http_message_gen. intros strict x f d b r H.
    destruct (find_sep CRLF2 x) as [[hs body]|] eqn:F; [|discriminate].
    destruct (negb (utf8_ok hs)); [discriminate|].
    destruct (key_values _) as [kvs|]; [|discriminate].
    destruct (content_length (cid_of kvs)) as [cl| |]; try discriminate.
    destruct (strict && (cl <? 0)%Z); [discriminate|].
    destruct (Z.of_N (len body) <? cl)%Z eqn:L; [discriminate|].
    injection H as Hf Hd Hb Hr. subst f d b r.
    apply find_sep_length in F. pose proof (py_from_length cl body). cbn [CRLF2 length] in F. lia.
  Qed.

  Lemma phm_msg_app : forall x f d b r y, phm true x = HMsg f d b r -> phm true (x ++ y) = HMsg f d b (r ++ y).
  Proof.
    unfold parse_http_message_gen. intros x f d b r y H.
    destruct (find_sep CRLF2 x) as [[hs body]|] eqn:F; [|discriminate].
    rewrite (find_sep_app _ _ _ _ y F).
    destruct (negb (utf8_ok hs)); [discriminate|].
    destruct (key_values _) as [kvs|]; [|discriminate].
    destruct (content_length (cid_of kvs)) as [cl| |]; try discriminate.
    cbn [andb] in *. destruct (cl <? 0)%Z eqn:N0; [discriminate|]. apply Z.ltb_ge in N0.
    destruct (Z.of_N (len body) <? cl)%Z eqn:L; [discriminate|].
    destruct (py_slices_app cl body y N0 L) as (E1 & E2 & E3). rewrite E1, E2, E3.
    injection H as Hf Hd Hb Hr. subst f d b r. reflexivity.
  Qed.

  Lemma phm_fail_app : forall x e y, phm true x = HFail e -> phm true (x ++ y) = HFail e.
  Proof.
    unfold parse_http_message_gen. intros x e y H.
    destruct (find_sep CRLF2 x) as [[hs body]|] eqn:F; [|discriminate].
    rewrite (find_sep_app _ _ _ _ y F).
    destruct (negb (utf8_ok hs)); [assumption|].
    destruct (key_values _) as [kvs|]; [|assumption].
    destruct (content_length (cid_of kvs)) as [cl| |]; try assumption.
    cbn [andb] in *. destruct (cl <? 0)%Z; [assumption|].
    destruct (Z.of_N (len body) <? cl)%Z eqn:L; discriminate.
  Qed.

  (* where the strict parser does not fail, the code as written does the same *)
  Lemma phm_agree : forall x, (forall e, phm true x <> HFail e) -> phm false x = phm true x.
  Proof.
    unfold parse_http_message_gen. intros x H.
    destruct (find_sep CRLF2 x) as [[hs body]|]; [|reflexivity].
    destruct (negb (utf8_ok hs)); [reflexivity|].
    destruct (key_values _) as [kvs|]; [|reflexivity].
    destruct (content_length (cid_of kvs)) as [cl| |]; try reflexivity.
    cbn [andb] in *. destruct (cl <? 0)%Z; [|reflexivity]. exfalso. eapply H. reflexivity.
  Qed.

  (* ---- HttpConnection *)
  Local Notation pc := (httpc_gen utf8_ok resp_first_ok).

  Lemma httpc_stable : forall s x m s' r y, pc true s x = Frame m s' r -> pc true s (x ++ y) = Frame m s' (r ++ y).
  Proof.
    unfold httpc_gen. intros s x m s' r y H.
    destruct (parse_http_message_gen utf8_ok true x) as [|e|f d b r0] eqn:P; try discriminate.
    rewrite (phm_msg_app _ _ _ _ _ y P).
    destruct (resp_first_ok f); [|discriminate]. now inversion H.
  Qed.

  Lemma httpc_progress : forall strict s x m s' r, pc strict s x = Frame m s' r -> (length r < length x)%nat.
  Proof.
    unfold httpc_gen. intros strict s x m s' r H.
    destruct (parse_http_message_gen utf8_ok strict x) as [|e|f d b r0] eqn:P; try discriminate.
    destruct (resp_first_ok f); [|discriminate]. inversion H; subst.
    apply phm_progress in P. lia.
  Qed.

  Lemma httpc_failpfx : forall s x y e, pc true s x = Fail e -> exists e', pc true s (x ++ y) = Fail e'.
  Proof.
    unfold httpc_gen. intros s x y e H.
    destruct (parse_http_message_gen utf8_ok true x) as [|e0|f d b r0] eqn:P; try discriminate.
    - rewrite (phm_fail_app _ _ y P). eauto.
    - rewrite (phm_msg_app _ _ _ _ _ y P). destruct (resp_first_ok f); [discriminate|]. eauto.
  Qed.

  Lemma httpc_agree : forall s x, (forall e, pc true s x <> Fail e) -> pc false s x = pc true s x.
  Proof.
    unfold httpc_gen. intros s x H. rewrite phm_agree; [reflexivity|].
    intros e E. rewrite E in H. eapply H. reflexivity.
  Qed.

  (* ---- parse_request *)
  Local Notation pr := (parse_request_gen utf8_ok req_first_ok).

  Lemma pr_frame_app : forall x m r y, pr true x = RFrame m r -> pr true (x ++ y) = RFrame m (r ++ y).
  Proof.
    unfold parse_request_gen. intros x m r y H.
    destruct (parse_http_message_gen utf8_ok true x) as [|e|f d b r0] eqn:P; try discriminate.
    rewrite (phm_msg_app _ _ _ _ _ y P).
    destruct f as [|c f']; [discriminate|].
    destruct (req_first_ok (c :: f')); [|discriminate]. now inversion H.
  Qed.

  Lemma pr_fail_app : forall x e y, pr true x = RFail e -> pr true (x ++ y) = RFail e.
  Proof.
    unfold parse_request_gen. intros x e y H.
    destruct (parse_http_message_gen utf8_ok true x) as [|e0|f d b r0] eqn:P; try discriminate.
    - rewrite (phm_fail_app _ _ y P). assumption.
    - rewrite (phm_msg_app _ _ _ _ _ y P).
      destruct f as [|c f']; [discriminate|].
      destruct (req_first_ok (c :: f')); [discriminate|]. assumption.
  Qed.

  Lemma pr_skip_app : forall x r y, pr true x = RSkip r -> pr true (x ++ y) = RSkip (r ++ y).
  Proof.
    unfold parse_request_gen. intros x r y H.
    destruct (parse_http_message_gen utf8_ok true x) as [|e0|f d b r0] eqn:P; try discriminate.
    rewrite (phm_msg_app _ _ _ _ _ y P).
    destruct f as [|c f']; [now inversion H|].
    destruct (req_first_ok (c :: f')); discriminate.
  Qed.

  Lemma pr_frame_progress : forall strict x m r, pr strict x = RFrame m r -> (length r < length x)%nat.
  Proof.
    unfold parse_request_gen. intros strict x m r H.
    destruct (parse_http_message_gen utf8_ok strict x) as [|e|f d b r0] eqn:P; try discriminate.
    destruct f as [|c f']; [discriminate|].
    destruct (req_first_ok (c :: f')); [|discriminate]. inversion H; subst.
    apply phm_progress in P. lia.
  Qed.

  Lemma pr_skip_progress : forall strict x r, pr strict x = RSkip r -> (length r < length x)%nat.
  Proof.
    unfold parse_request_gen. intros strict x r H.
    destruct (parse_http_message_gen utf8_ok strict x) as [|e|f d b r0] eqn:P; try discriminate.
    destruct f as [|c f']; [|destruct (req_first_ok (c :: f')); discriminate].
    inversion H; subst. apply phm_progress in P. lia.
  Qed.

  Lemma pr_agree : forall x, (forall e, pr true x <> RFail e) -> pr false x = pr true x.
  Proof.
    unfold parse_request_gen. intros x H. rewrite phm_agree; [reflexivity|].
    intros e E. rewrite E in H. eapply H. reflexivity.
  Qed.

  (* ---- BasicHttpServer *)
  Local Notation pd := (httpd_gen utf8_ok req_first_ok).

  Lemma httpd_stable : forall s x m s' r y, pd true s x = Frame m s' r -> pd true s (x ++ y) = Frame m s' (r ++ y).
  Proof.
    unfold httpd_gen. intros s x m s' r y H.
    destruct (parse_request_gen utf8_ok req_first_ok true x) eqn:P; try discriminate.
    rewrite (pr_frame_app _ _ _ y P). now inversion H.
  Qed.

  Lemma httpd_progress : forall strict s x m s' r, pd strict s x = Frame m s' r -> (length r < length x)%nat.
  Proof.
    unfold httpd_gen. intros strict s x m s' r H.
    destruct (parse_request_gen utf8_ok req_first_ok strict x) eqn:P; try discriminate.
    inversion H; subst. now apply pr_frame_progress in P.
  Qed.

  Lemma httpd_failpfx : forall s x y e, pd true s x = Fail e -> exists e', pd true s (x ++ y) = Fail e'.
  Proof.
    unfold httpd_gen. intros s x y e H.
    destruct (parse_request_gen utf8_ok req_first_ok true x) eqn:P; try discriminate.
    rewrite (pr_fail_app _ _ y P). eauto.
  Qed.

  Lemma httpd_agree : forall s x, (forall e, pd true s x <> Fail e) -> pd false s x = pd true s x.
  Proof.
    unfold httpd_gen. intros s x H. rewrite pr_agree; [reflexivity|].
    intros e E. rewrite E in H. eapply H. reflexivity.
  Qed.

  (* ---- EventChannel *)
  Local Notation pe := (ev_gen utf8_ok req_first_ok).

  Lemma ev_stable : forall s x m s' r y, pe true s x = Frame m s' r -> pe true s (x ++ y) = Frame m s' (r ++ y).
  Proof.
    unfold ev_gen. intros s x m s' r y H.
    destruct (parse_request_gen utf8_ok req_first_ok true x) eqn:P; try discriminate.
    rewrite (pr_frame_app _ _ _ y P). now inversion H.
  Qed.

  Lemma ev_progress : forall strict s x m s' r, pe strict s x = Frame m s' r -> (length r < length x)%nat.
  Proof.
    unfold ev_gen. intros strict s x m s' r H.
    destruct (parse_request_gen utf8_ok req_first_ok strict x) eqn:P; try discriminate.
    inversion H; subst. now apply pr_frame_progress in P.
  Qed.

  Lemma ev_failpfx : forall s x y e, pe true s x = Fail e -> exists e', pe true s (x ++ y) = Fail e'.
  Proof.
    unfold ev_gen. intros s x y e H.
    destruct (parse_request_gen utf8_ok req_first_ok true x) eqn:P; try discriminate.
    - rewrite (pr_fail_app _ _ y P). eauto.
    - rewrite (pr_skip_app _ _ y P). eauto.
  Qed.

  Lemma ev_agree : forall s x, (forall e, pe true s x <> Fail e) -> pe false s x = pe true s x.
  Proof.
    unfold ev_gen. intros s x H. rewrite pr_agree; [reflexivity|].
    intros e E. rewrite E in H. eapply H. reflexivity.
  Qed.

  (* ---- BasicHttpServer with the request handler as an input *)
  Variable handler : http_msg -> hout.
  Local Notation ph := (httpdh_gen utf8_ok req_first_ok handler).

  Lemma httpdh_stable : forall s x m s' r y, ph true s x = Frame m s' r -> ph true s (x ++ y) = Frame m s' (r ++ y).
  Proof. exact (map_stable _ _ _ (pd true) _ httpd_stable). Qed.
  Lemma httpdh_progress : forall strict s x m s' r, ph strict s x = Frame m s' r -> (length r < length x)%nat.
  Proof. intro strict. exact (map_progress _ _ _ (pd strict) _ (httpd_progress strict)). Qed.
  Lemma httpdh_failpfx : forall s x y e, ph true s x = Fail e -> exists e', ph true s (x ++ y) = Fail e'.
  Proof. exact (map_failpfx _ _ _ (pd true) _ httpd_failpfx). Qed.
  Lemma httpdh_agree : forall s x, (forall e, ph true s x <> Fail e) -> ph false s x = ph true s x.
  Proof. exact (map_agree (pd false) (pd true) _ httpd_agree). Qed.

  (* ---- the loops as written vs. the drain shape *)

  (* BasicHttpServer.data_received: what run reports as delivered is what the handler got, with
     the answer written for it (also when the handler raised: 500 and the rest is kept);
     where run fails (the PARSER raised), the server answered 500 and emptied its buffer. *)
  Lemma httpd_loop_run : forall fuel buf, (length buf <= fuel)%nat ->
    httpd_loop utf8_ok req_first_ok handler fuel buf =
    match drain (httpdh_p1 utf8_ok req_first_ok handler) fuel tt buf with
    | Out ms _ r => (map (fun ma => SReq (fst ma) (snd ma)) ms, r)
    | Failed ms e => (map (fun ma => SReq (fst ma) (snd ma)) ms ++ [SErr500 e], [])
    | OutOfFuel => ([], buf)
    end.
  Proof.
    induction fuel as [|f IH]; intros buf Hl.
    - destruct buf; [reflexivity|simpl in Hl; lia].
    - destruct buf as [|c t]; [reflexivity|].
      cbn [httpd_loop]. rewrite drain_S. set (buf := c :: t) in *.
      assert (Epd : httpdh_p1 utf8_ok req_first_ok handler tt buf =
                    match parse_request utf8_ok req_first_ok buf with
                    | RNeed | RSkip _ => Need | RFail e => Fail e
                    | RFrame m rest => Frame (m, answer_of (handler m)) tt rest end).
      { unfold httpdh_p1, httpdh_gen, httpd_gen, parse_request.
        destruct (parse_request_gen utf8_ok req_first_ok false buf); reflexivity. }
      rewrite Epd. clear Epd. unfold httpd_next.
      assert (Ebb : bytes_beq buf buf = true)
        by (apply (list_beq_eq N.eqb); [intros; apply N.eqb_eq|reflexivity]).
      destruct (parse_request utf8_ok req_first_ok buf) as [|e|r0|m r0] eqn:P.
      + rewrite Ebb. reflexivity.
      + replace (bytes_beq [] buf) with false by reflexivity.
        destruct f; reflexivity.
      + rewrite Ebb. reflexivity.
      + pose proof (pr_frame_progress false _ _ _ P) as Hp.
        replace (bytes_beq r0 buf) with false.
        * rewrite IH by lia.
          destruct (drain (httpdh_p1 utf8_ok req_first_ok handler) f tt r0) as [ms [] r1|ms e|] eqn:D; try reflexivity.
          exfalso. revert D. apply (drain_fuel _ _ _ _ (httpdh_p1 utf8_ok req_first_ok handler) (httpdh_progress false)). lia.
        * symmetry. apply not_true_is_false. intro E.
          apply (list_beq_eq N.eqb) in E; [|intros; apply N.eqb_eq]. subst r0. lia.
  Qed.

  (* EventChannel.handle_received: on streams where run does not fail the loop as written IS run;
     where run fails, the messages before the failure were handled and nothing after it in this call *)
  Lemma ev_loop_run : forall fuel buf, (length buf <= fuel)%nat ->
    match drain (ev_p1 utf8_ok req_first_ok) fuel tt buf with
    | Out ms _ r => ev_loop utf8_ok req_first_ok fuel buf = (ms, r)
    | Failed ms e => fst (ev_loop utf8_ok req_first_ok fuel buf) = ms
    | OutOfFuel => False
    end.
  Proof.
    induction fuel as [|f IH]; intros buf Hl.
    - destruct buf; [reflexivity|simpl in Hl; lia].
    - destruct buf as [|c t]; [reflexivity|].
      cbn [ev_loop]. rewrite drain_S. set (buf := c :: t) in *.
      assert (Epe : ev_p1 utf8_ok req_first_ok tt buf = match parse_request utf8_ok req_first_ok buf with
                                | RNeed => Need | RSkip _ => Fail EBlankFirstLine | RFail e => Fail e
                                | RFrame m rest => Frame m tt rest end) by reflexivity.
      rewrite Epe. clear Epe.
      destruct (parse_request utf8_ok req_first_ok buf) as [|e|r0|m r0] eqn:P; try reflexivity.
      pose proof (pr_frame_progress false _ _ _ P) as Hp.
      specialize (IH r0 ltac:(lia)).
      destruct (drain (ev_p1 utf8_ok req_first_ok) f tt r0) as [ms [] r1|ms e|] eqn:D.
      + rewrite IH. reflexivity.
      + destruct (ev_loop utf8_ok req_first_ok f r0) as [ms' b']. cbn [fst] in *. now subst.
      + assumption.
  Qed.
End Http.

(* A stream with a blank request line is not a valid stream, and there the event channel's
   loop does depend on the segmentation: the complete request after the blank line is held back
   until the next read when both arrive in one read. *)
Lemma evchan_blank_line_depends_on_segmentation :
  let all := fun _ : bytes => true in
  let req := [71;69;84;32;47;32;72;47;49;13;10;13;10] in      (* "GET / H/1" CRLF CRLF *)
  ev_feeds all all [] [CRLF2 ++ req] = ([], req) /\
  ev_feeds all all [] [CRLF2; req] = ([([71;69;84;32;47;32;72;47;49], [], [])], []).
Proof. split; vm_compute; reflexivity. Qed.
