(* C02 - a valid stream (Spec.v) is delivered frame by frame, under every segmentation. *)
From Coq Require Import NArith ZArith List Bool Arith Lia.
From PV Require Import Common.Cases Common.Framing Common.Endian C02.Model C02.Spec C02.ProofsBase C02.ProofsLaws.
Import ListNotations.
Local Open Scope N_scope.

Section Gen.
  Variables (F S M : Type).
  Variable p : S -> bytes -> step N S M err.
  Variable enc : F -> bytes.
  Variable step_of : S -> F -> M * S.
  Variable ok : S -> F -> Prop.
  Hypothesis stable : forall s x m s' r y, p s x = Frame m s' r -> p s (x ++ y) = Frame m s' (r ++ y).
  Hypothesis progress : forall s x m s' r, p s x = Frame m s' r -> (length r < length x)%nat.
  Hypothesis failpfx : forall s x y e, p s x = Fail e -> exists e', p s (x ++ y) = Fail e'.
  Hypothesis one : forall s f rest, ok s f ->
    p s (enc f ++ rest) = Frame (fst (step_of s f)) (snd (step_of s f)) rest.

  Lemma run_stream : forall fs s, all_ok _ _ _ step_of ok s fs ->
    run p s (stream _ enc fs) = Out (delivered _ _ _ step_of s fs) (final _ _ _ step_of s fs) [].
  Proof.
    induction fs as [|f t IH]; intros s Hok.
    - reflexivity.
    - destruct Hok as [Hf Ht]. cbn [stream map concat delivered final].
      pose proof (one s f (concat (map enc t)) Hf) as H1.
      pose proof (progress _ _ _ _ _ H1) as Hp.
      unfold run. destruct (enc f ++ concat (map enc t)) as [|b l] eqn:E; [simpl in Hp; lia|].
      cbn [length]. rewrite drain_S, H1.
      rewrite (drain_fuel_irrel _ _ _ _ p progress (length l) (length (concat (map enc t)))) by (simpl in Hp; lia).
      change (drain p (length (concat (map enc t))) (snd (step_of s f)) (concat (map enc t)))
        with (run p (snd (step_of s f)) (stream _ enc t)).
      rewrite (IH _ Ht). reflexivity.
  Qed.

  Theorem valid_stream_any_split : forall fs s chunks, all_ok _ _ _ step_of ok s fs ->
    concat chunks = stream _ enc fs ->
    feeds p s [] chunks = Out (delivered _ _ _ step_of s fs) (final _ _ _ step_of s fs) [].
  Proof.
    intros fs s chunks Hok E.
    rewrite (feed_chunks _ _ _ _ p stable progress failpfx chunks s []).
    - cbn [app]. rewrite E. now apply run_stream.
    - reflexivity.
    - cbn [app]. rewrite E, (run_stream _ _ Hok). discriminate.
  Qed.
End Gen.

(* ------------------------------------------------------------------ varint *)
Lemma read_var_enc : forall fuel n r mul acc, n < 128 ^ N.of_nat fuel ->
  read_var (varint_enc (S fuel) n ++ r) mul acc = Some (acc + n * mul, r).
Proof.
  induction fuel as [|f IH]; intros n r mul acc Hn.
  - cbn [varint_enc]. simpl in Hn. replace (n <? 128) with true by (symmetry; apply N.ltb_lt; lia).
    cbn [app read_var]. replace (n <? 128) with true by (symmetry; apply N.ltb_lt; lia).
    rewrite N.mod_small by lia. reflexivity.
  - change (varint_enc (S (S f)) n) with (if n <? 128 then [n] else (n mod 128 + 128) :: varint_enc (S f) (n / 128)).
    destruct (n <? 128) eqn:L.
    + cbn [app read_var]. rewrite L. apply N.ltb_lt in L.
      rewrite N.mod_small by assumption. reflexivity.
    + apply N.ltb_ge in L. cbn [app read_var].
      assert (Hm : n mod 128 < 128) by (apply N.mod_lt; discriminate).
      assert (Hf : (n mod 128 + 128 <? 128) = false) by (apply N.ltb_ge; apply N.le_add_l). rewrite Hf.
      rewrite IH.
      * f_equal. f_equal.
        replace (n mod 128 + 128) with (n mod 128 + 1 * 128) by (rewrite N.mul_1_l; reflexivity).
        rewrite N.mod_add, N.mod_mod by discriminate.
        pose proof (N.div_mod' n 128) as Hd.
        set (a := n mod 128) in *. set (q := n / 128) in *. clearbody a q. nia.
      * rewrite Nat2N.inj_succ, N.pow_succ_r' in Hn.
        apply N.div_lt_upper_bound; [discriminate|lia].
Qed.

Lemma size_bound n : n < 128 ^ N.of_nat (N.size_nat n).
Proof.
  destruct n as [|q]; [reflexivity|].
  assert (H2 : N.pos q < 2 ^ N.of_nat (N.size_nat (N.pos q))).
  { cbn [N.size_nat]. induction q as [q IH|q IH|]; cbn [Pos.size_nat].
    - rewrite Nat2N.inj_succ, N.pow_succ_r'. lia.
    - rewrite Nat2N.inj_succ, N.pow_succ_r'. lia.
    - reflexivity. }
  eapply N.lt_le_trans; [exact H2|].
  set (k := N.of_nat (N.size_nat (N.pos q))).
  replace 128 with (2 ^ 7) by reflexivity. rewrite <- N.pow_mul_r.
  apply N.pow_le_mono_r; lia.
Qed.

Lemma read_variant_varint n r : read_variant (varint n ++ r) = Some (n, r).
Proof.
  unfold read_variant, varint. rewrite read_var_enc by apply size_bound. f_equal. f_equal. lia.
Qed.

(* ------------------------------------------------------------------ one frame, then anything *)
Lemma firstn_exact {A} (a b : list A) : firstn (length a) (a ++ b) = a.
Proof. rewrite firstn_app, Nat.sub_diag, firstn_all. cbn. apply app_nil_r. Qed.
Lemma skipn_exact {A} (a b : list A) : skipn (length a) (a ++ b) = b.
Proof. rewrite skipn_app, Nat.sub_diag, skipn_all. reflexivity. Qed.
Lemma take_exact a b : take (len a) (a ++ b) = a.
Proof. unfold take, len. rewrite Nat2N.id. apply firstn_exact. Qed.
Lemma drop_exact a b : drop (len a) (a ++ b) = b.
Proof. unfold drop, len. rewrite Nat2N.id. apply skipn_exact. Qed.

Section One.
  Variable dec1 : N -> bytes -> option bytes.
  Variable pb_ok : bytes -> bool.

  Lemma mrp_one : forall s data rest,
    mrp_p1 dec1 pb_ok s (mrp_enc data ++ rest) =
    Frame (fst (mrp_handle dec1 pb_ok s data)) (snd (mrp_handle dec1 pb_ok s data)) rest.
  Proof.
    intros s data rest. unfold mrp_p1, mrp_enc. rewrite <- app_assoc, read_variant_varint.
    replace (len (data ++ rest) <? len data) with false by (symmetry; apply N.ltb_ge; rewrite len_app; lia).
    rewrite take_exact, drop_exact. destruct (mrp_handle dec1 pb_ok s data). reflexivity.
  Qed.

  Variable dec : N -> bytes -> bytes -> option bytes.
  Variable known_type : N -> bool.

  Lemma comp_one : forall s f rest, comp_wf f ->
    comp_p1 dec known_type s (comp_enc f ++ rest) =
    Frame (fst (comp_handle dec known_type s (fst f :: be_enc 3 (len (snd f))) (snd f)))
          (snd (comp_handle dec known_type s (fst f :: be_enc 3 (len (snd f))) (snd f))) rest.
  Proof.
    intros s [t pl] rest Hwf. unfold comp_wf in Hwf. cbn [fst snd] in *. unfold comp_p1, comp_enc. cbn [fst snd].
    set (hdr := t :: be_enc 3 (len pl)).
    assert (Lh : length hdr = 4%nat) by (unfold hdr; cbn [length]; now rewrite be_enc_length).
    assert (Lh' : len hdr = 4) by (unfold len; rewrite Lh; reflexivity).
    replace ((t :: be_enc 3 (len pl) ++ pl) ++ rest) with (hdr ++ pl ++ rest)
      by (unfold hdr; cbn [app]; now rewrite <- app_assoc).
    replace (len (hdr ++ pl ++ rest) <? 4) with false
      by (symmetry; apply N.ltb_ge; rewrite len_app, Lh'; lia).
    assert (E3 : firstn 3 (skipn 1 (hdr ++ pl ++ rest)) = be_enc 3 (len pl)).
    { unfold hdr. cbn [app skipn]. rewrite <- (be_enc_length 3 (len pl)) at 1. apply firstn_exact. }
    rewrite E3, be_dec_enc by (change (256 ^ N.of_nat 3) with (2 ^ 24); assumption).
    replace (len (hdr ++ pl ++ rest) <? len pl + 4) with false
      by (symmetry; apply N.ltb_ge; rewrite !len_app, Lh'; lia).
    assert (E4 : firstn 4 (hdr ++ pl ++ rest) = hdr) by (rewrite <- Lh; apply firstn_exact).
    rewrite E4.
    assert (Ep : len pl + 4 = len (hdr ++ pl)) by (rewrite len_app, Lh'; lia).
    rewrite Ep. rewrite app_assoc, take_exact, drop_exact.
    rewrite <- Lh at 1. rewrite skipn_exact.
    destruct (comp_handle dec known_type s hdr pl). reflexivity.
  Qed.

  Lemma hap_one : forall c ct rest pl, hap_wf ct ->
    dec c (le_enc 2 (len ct - 16)) ct = Some pl ->
    hap_p1 dec c (hap_enc ct ++ rest) = Frame pl (c + 1) rest.
  Proof.
    intros c ct rest pl [W1 W2] Hd. unfold hap_p1, hap_enc.
    set (lb := le_enc 2 (len ct - 16)).
    assert (Ll : length lb = 2%nat) by apply le_enc_length.
    assert (Ll' : len lb = 2) by (unfold len; rewrite Ll; reflexivity).
    rewrite <- app_assoc.
    assert (E2 : firstn 2 (lb ++ ct ++ rest) = lb) by (rewrite <- Ll; apply firstn_exact).
    rewrite E2.
    assert (Ed : le_dec lb = len ct - 16)
      by (unfold lb; apply le_dec_enc; change (256 ^ N.of_nat 2) with (2 ^ 16); assumption).
    rewrite Ed. replace (len ct - 16 + 16) with (len ct) by lia.
    replace (len (lb ++ ct ++ rest) <? len ct + 2) with false
      by (symmetry; apply N.ltb_ge; rewrite !len_app, Ll'; lia).
    rewrite <- Ll at 1. rewrite skipn_exact, take_exact. fold lb in Hd. rewrite Hd.
    replace (len ct + 2) with (len (lb ++ ct)) by (rewrite len_app, Ll'; lia).
    rewrite app_assoc, drop_exact. reflexivity.
  Qed.
End One.

Lemma slice_at {A} (n k : nat) (pre a post : list A) :
  length pre = n -> length a = k -> firstn k (skipn n (pre ++ a ++ post)) = a.
Proof. intros <- <-. rewrite skipn_exact. apply firstn_exact. Qed.

Section OneDs.
  Variable ok : ds_msg -> bool.

  Lemma ds_one : forall s m rest, ds_wf m -> ok m = true ->
    ds_p1 ok s (ds_enc m ++ rest) = Frame m tt rest.
  Proof.
    intros [] [T C Q P PL] rest (LT & LC & HQ & HP & HS) Hok. cbn [ds_type ds_cmd ds_seqno ds_pad ds_payload] in *.
    unfold ds_enc. cbn [ds_type ds_cmd ds_seqno ds_pad ds_payload].
    set (A := be_enc 4 (32 + len PL)). set (QB := be_enc 8 Q). set (PB := be_enc 4 P).
    assert (LA : length A = 4%nat) by apply be_enc_length.
    assert (LQ : length QB = 8%nat) by apply be_enc_length.
    assert (LP : length PB = 4%nat) by apply be_enc_length.
    set (buf := (A ++ T ++ C ++ QB ++ PB ++ PL) ++ rest).
    assert (B1 : buf = [] ++ A ++ T ++ C ++ QB ++ PB ++ PL ++ rest) by (unfold buf; cbn [app]; now rewrite <- !app_assoc).
    assert (B2 : buf = A ++ T ++ C ++ QB ++ PB ++ PL ++ rest) by exact B1.
    assert (B3 : buf = (A ++ T) ++ C ++ QB ++ PB ++ PL ++ rest) by (rewrite B2; now rewrite <- !app_assoc).
    assert (B4 : buf = (A ++ T ++ C) ++ QB ++ PB ++ PL ++ rest) by (rewrite B2; now rewrite <- !app_assoc).
    assert (B5 : buf = (A ++ T ++ C ++ QB) ++ PB ++ PL ++ rest) by (rewrite B2; now rewrite <- !app_assoc).
    assert (B6 : buf = ((A ++ T ++ C ++ QB ++ PB) ++ PL) ++ rest) by (rewrite B2; now rewrite <- !app_assoc).
    assert (L32 : length (A ++ T ++ C ++ QB ++ PB) = 32%nat) by (rewrite !app_length; lia).
    assert (F1 : firstn 4 buf = A) by (rewrite B2, <- LA; apply firstn_exact).
    assert (F2 : firstn 12 (skipn 4 buf) = T) by (rewrite B2; now apply slice_at).
    assert (F3 : firstn 4 (skipn 16 buf) = C) by (rewrite B3; apply slice_at; [rewrite app_length; lia|assumption]).
    assert (F4 : firstn 8 (skipn 20 buf) = QB) by (rewrite B4; apply slice_at; [rewrite !app_length; lia|assumption]).
    assert (F5 : firstn 4 (skipn 28 buf) = PB) by (rewrite B5; apply slice_at; [rewrite !app_length; lia|assumption]).
    assert (L32' : len (A ++ T ++ C ++ QB ++ PB) = 32) by (unfold len; rewrite L32; reflexivity).
    assert (LB : len buf = 32 + len PL + len rest).
    { rewrite B6, (len_app _ rest), (len_app _ PL), L32'. lia. }
    unfold ds_p1. rewrite F1, F2, F3, F4, F5.
    unfold A, QB, PB. rewrite !be_dec_enc by assumption. fold A QB PB.
    replace (len buf <? 32) with false by (symmetry; apply N.ltb_ge; lia).
    replace (32 + len PL <? 32) with false by (symmetry; apply N.ltb_ge; lia).
    replace (len buf <? 32 + len PL) with false by (symmetry; apply N.ltb_ge; lia).
    assert (ES : 32 + len PL = len ((A ++ T ++ C ++ QB ++ PB) ++ PL)).
    { rewrite len_app, L32'. lia. }
    rewrite ES, B6, take_exact, drop_exact.
    replace 32%nat with (length (A ++ T ++ C ++ QB ++ PB)) by exact L32.
    rewrite skipn_exact, Hok. reflexivity.
  Qed.
End OneDs.
