(* C02 - the three parser laws of Common/Framing.v for MRP, Companion, HAP session and the
   data stream channel. *)
From Coq Require Import NArith List Bool Arith Lia.
From PV Require Import Common.Cases Common.Framing Common.Endian C02.Model C02.ProofsBase.
Import ListNotations.
Local Open Scope N_scope.

Lemma ltb_app_false x y n : (len x <? n) = false -> (len (x ++ y) <? n) = false.
Proof. rewrite !N.ltb_ge, len_app. lia. Qed.

(* ------------------------------------------------------------------ MRP *)
Section Mrp.
  Variable dec : N -> bytes -> option bytes.
  Variable pb_ok : bytes -> bool.
  Let p := mrp_p1 dec pb_ok.

  Lemma mrp_stable : forall s x m s' r y, p s x = Frame m s' r -> p s (x ++ y) = Frame m s' (r ++ y).
  Proof.
    unfold p, mrp_p1, read_variant. intros s x m s' r y H.
    destruct (read_var x 1 0) as [[n raw]|] eqn:R; [|discriminate].
    rewrite (read_var_app _ _ _ _ _ y R).
    destruct (len raw <? n) eqn:L; [discriminate|].
    rewrite (ltb_app_false _ y _ L). apply N.ltb_ge in L.
    rewrite take_app_le by assumption.
    destruct (mrp_handle dec pb_ok s (take n raw)) as [m0 s0].
    inversion H; subst. now rewrite drop_app_le.
  Qed.

  Lemma mrp_progress : forall s x m s' r, p s x = Frame m s' r -> (length r < length x)%nat.
  Proof.
    unfold p, mrp_p1, read_variant. intros s x m s' r H.
    destruct (read_var x 1 0) as [[n raw]|] eqn:R; [|discriminate].
    destruct (len raw <? n) eqn:L; [discriminate|].
    destruct (mrp_handle dec pb_ok s (take n raw)) as [m0 s0].
    inversion H; subst. apply read_var_shorter in R.
    unfold drop. rewrite skipn_length. lia.
  Qed.

  Lemma mrp_never_fails : forall s x e, p s x <> Fail e.
  Proof.
    unfold p, mrp_p1. intros s x e. destruct (read_variant x) as [[n raw]|]; [|discriminate].
    destruct (len raw <? n); [discriminate|].
    destruct (mrp_handle dec pb_ok s (take n raw)). discriminate.
  Qed.

  Lemma mrp_failpfx : forall s x y e, p s x = Fail e -> exists e', p s (x ++ y) = Fail e'.
  Proof. intros s x y e H. now apply mrp_never_fails in H. Qed.
End Mrp.

(* ------------------------------------------------------------------ Companion *)
Section Companion.
  Variable dec : N -> bytes -> bytes -> option bytes.
  Variable known_type : N -> bool.
  Let p := comp_p1 dec known_type.

  Lemma len_ge_nat x k : (len x <? N.of_nat k) = false -> (k <= length x)%nat.
  Proof. rewrite N.ltb_ge. unfold len. lia. Qed.

  Lemma comp_stable : forall s x m s' r y, p s x = Frame m s' r -> p s (x ++ y) = Frame m s' (r ++ y).
  Proof.
    unfold p, comp_p1. intros s x m s' r y H.
    destruct (len x <? 4) eqn:L4; [discriminate|].
    rewrite (ltb_app_false _ y _ L4).
    assert (H4 : (4 <= length x)%nat) by (apply (len_ge_nat x 4); exact L4).
    assert (E3 : firstn 3 (skipn 1 (x ++ y)) = firstn 3 (skipn 1 x)).
    { rewrite skipn_app_le by lia. apply firstn_app_le. rewrite skipn_length. lia. }
    rewrite E3. set (plen := be_dec (firstn 3 (skipn 1 x)) + 4) in *.
    destruct (len x <? plen) eqn:L; [discriminate|].
    rewrite (ltb_app_false _ y _ L). apply N.ltb_ge in L.
    rewrite take_app_le by assumption. rewrite firstn_app_le by lia.
    destruct (comp_handle dec known_type s (firstn 4 x) (skipn 4 (take plen x))) as [m0 s0].
    inversion H; subst. now rewrite drop_app_le.
  Qed.

  Lemma comp_progress : forall s x m s' r, p s x = Frame m s' r -> (length r < length x)%nat.
  Proof.
    unfold p, comp_p1. intros s x m s' r H.
    destruct (len x <? 4) eqn:L4; [discriminate|].
    set (plen := be_dec (firstn 3 (skipn 1 x)) + 4) in *.
    destruct (len x <? plen) eqn:L; [discriminate|].
    destruct (comp_handle dec known_type s (firstn 4 x) (skipn 4 (take plen x))) as [m0 s0].
    inversion H; subst. apply N.ltb_ge in L, L4. unfold drop. rewrite skipn_length.
    unfold len in *. lia.
  Qed.

  Lemma comp_never_fails : forall s x e, p s x <> Fail e.
  Proof.
    unfold p, comp_p1. intros s x e. destruct (len x <? 4); [discriminate|].
    destruct (len x <? _); [discriminate|].
    destruct (comp_handle _ _ _ _ _). discriminate.
  Qed.

  Lemma comp_failpfx : forall s x y e, p s x = Fail e -> exists e', p s (x ++ y) = Fail e'.
  Proof. intros s x y e H. now apply comp_never_fails in H. Qed.
End Companion.

(* ------------------------------------------------------------------ HAP session *)
Section Hap.
  Variable dec : N -> bytes -> bytes -> option bytes.
  Let p := hap_p1 dec.

  (* once the block is complete (at least 18 bytes) the two length bytes are fixed *)
  Lemma hap_complete x y :
    (len x <? le_dec (firstn 2 x) + 16 + 2) = false ->
    firstn 2 (x ++ y) = firstn 2 x /\ (2 <= length x)%nat.
  Proof.
    intro L. apply N.ltb_ge in L. assert (2 <= length x)%nat by (unfold len in L; lia).
    split; [now apply firstn_app_le | assumption].
  Qed.

  Lemma hap_stable : forall s x m s' r y, p s x = Frame m s' r -> p s (x ++ y) = Frame m s' (r ++ y).
  Proof.
    unfold p, hap_p1. intros s x m s' r y H.
    destruct (len x <? le_dec (firstn 2 x) + 16 + 2) eqn:L; [discriminate|].
    destruct (hap_complete x y L) as [E2 H2]. rewrite E2.
    rewrite (ltb_app_false _ y _ L). apply N.ltb_ge in L.
    set (blen := le_dec (firstn 2 x) + 16) in *.
    assert (Eb : take blen (skipn 2 (x ++ y)) = take blen (skipn 2 x)).
    { rewrite skipn_app_le by assumption. apply take_app_le. unfold len in *. rewrite skipn_length. lia. }
    rewrite Eb. destruct (dec s (firstn 2 x) (take blen (skipn 2 x))) as [pl|]; [|discriminate].
    injection H as Hm Hs Hr. subst m s' r. rewrite drop_app_le by lia. reflexivity.
  Qed.

  Lemma hap_progress : forall s x m s' r, p s x = Frame m s' r -> (length r < length x)%nat.
  Proof.
    unfold p, hap_p1. intros s x m s' r H.
    destruct (len x <? le_dec (firstn 2 x) + 16 + 2) eqn:L; [discriminate|].
    destruct (dec s _ _); [|discriminate]. injection H as Hm Hs Hr. subst m s' r.
    apply N.ltb_ge in L. unfold drop. rewrite skipn_length. unfold len in L. lia.
  Qed.

  Lemma hap_failpfx : forall s x y e, p s x = Fail e -> exists e', p s (x ++ y) = Fail e'.
  Proof.
    unfold p, hap_p1. intros s x y e H.
    destruct (len x <? le_dec (firstn 2 x) + 16 + 2) eqn:L; [discriminate|].
    destruct (hap_complete x y L) as [E2 H2]. rewrite E2.
    rewrite (ltb_app_false _ y _ L). apply N.ltb_ge in L.
    set (blen := le_dec (firstn 2 x) + 16) in *.
    assert (Eb : take blen (skipn 2 (x ++ y)) = take blen (skipn 2 x)).
    { rewrite skipn_app_le by assumption. apply take_app_le. unfold len in *. rewrite skipn_length. lia. }
    rewrite Eb. destruct (dec s (firstn 2 x) (take blen (skipn 2 x))) as [pl|]; [discriminate|].
    eauto.
  Qed.
End Hap.

(* ------------------------------------------------------------------ data stream channel *)
Section DataStream.
  Variable ok : ds_msg -> bool.
  Let p := ds_p1 ok.

  Lemma ds_fields (x y : bytes) : (32 <= length x)%nat ->
    firstn 4 (x ++ y) = firstn 4 x /\
    firstn 12 (skipn 4 (x ++ y)) = firstn 12 (skipn 4 x) /\
    firstn 4 (skipn 16 (x ++ y)) = firstn 4 (skipn 16 x) /\
    firstn 8 (skipn 20 (x ++ y)) = firstn 8 (skipn 20 x) /\
    firstn 4 (skipn 28 (x ++ y)) = firstn 4 (skipn 28 x).
  Proof.
    intro H. repeat split.
    - apply firstn_app_le; lia.
    - rewrite skipn_app_le by lia. apply firstn_app_le. rewrite skipn_length. lia.
    - rewrite skipn_app_le by lia. apply firstn_app_le. rewrite skipn_length. lia.
    - rewrite skipn_app_le by lia. apply firstn_app_le. rewrite skipn_length. lia.
    - rewrite skipn_app_le by lia. apply firstn_app_le. rewrite skipn_length. lia.
  Qed.

  Lemma ds_stable : forall s x m s' r y, p s x = Frame m s' r -> p s (x ++ y) = Frame m s' (r ++ y).
  Proof.
    unfold p, ds_p1. intros s x m s' r y H.
    destruct (len x <? 32) eqn:L32; [discriminate|].
    rewrite (ltb_app_false _ y _ L32).
    assert (H32 : (32 <= length x)%nat) by (apply N.ltb_ge in L32; unfold len in L32; lia).
    destruct (ds_fields x y H32) as (E1 & E2 & E3 & E4 & E5). rewrite E1, E2, E3, E4, E5.
    set (size := be_dec (firstn 4 x)) in *.
    destruct (size <? 32); [discriminate|].
    destruct (len x <? size) eqn:L; [discriminate|].
    rewrite (ltb_app_false _ y _ L). apply N.ltb_ge in L.
    rewrite take_app_le by assumption.
    destruct (ok _); [|discriminate]. inversion H; subst. now rewrite drop_app_le.
  Qed.

  Lemma ds_progress : forall s x m s' r, p s x = Frame m s' r -> (length r < length x)%nat.
  Proof.
    unfold p, ds_p1. intros s x m s' r H.
    destruct (len x <? 32) eqn:L32; [discriminate|].
    set (size := be_dec (firstn 4 x)) in *.
    destruct (size <? 32) eqn:S32; [discriminate|].
    destruct (len x <? size) eqn:L; [discriminate|].
    destruct (ok _); [|discriminate]. inversion H; subst.
    apply N.ltb_ge in L32, S32, L. unfold drop. rewrite skipn_length. unfold len in *. lia.
  Qed.

  Lemma ds_failpfx : forall s x y e, p s x = Fail e -> exists e', p s (x ++ y) = Fail e'.
  Proof.
    unfold p, ds_p1. intros s x y e H.
    destruct (len x <? 32) eqn:L32; [discriminate|].
    rewrite (ltb_app_false _ y _ L32).
    assert (H32 : (32 <= length x)%nat) by (apply N.ltb_ge in L32; unfold len in L32; lia).
    destruct (ds_fields x y H32) as (E1 & E2 & E3 & E4 & E5). rewrite E1, E2, E3, E4, E5.
    set (size := be_dec (firstn 4 x)) in *.
    destruct (size <? 32); [eauto|].
    destruct (len x <? size) eqn:L; [discriminate|].
    rewrite (ltb_app_false _ y _ L). apply N.ltb_ge in L.
    rewrite take_app_le by assumption.
    destruct (ok _); [discriminate|]. eauto.
  Qed.
End DataStream.
