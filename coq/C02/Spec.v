(* C02 - what a VALID stream is, written from the wire formats (docs/documentation/protocols.md),
   not from the receive loops: the concatenation of the encodings of a list of frames. *)
From Coq Require Import NArith List Bool Arith Lia.
From PV Require Import Common.Cases Common.Framing Common.Endian C02.Model.
Import ListNotations.
Local Open Scope N_scope.

(* protobuf varint *)
Fixpoint varint_enc (fuel : nat) (n : N) : bytes :=
  match fuel with
  | O => []
  | S f => if n <? 128 then [n] else (n mod 128 + 128) :: varint_enc f (n / 128)
  end.
Definition varint (n : N) : bytes := varint_enc (S (N.size_nat n)) n.

(* MRP: varint length, then the (possibly encrypted) serialized ProtocolMessage *)
Definition mrp_enc (data : bytes) : bytes := varint (len data) ++ data.

(* Companion: frame type, 24-bit big endian payload length, payload (ciphertext and tag when encrypted) *)
Definition comp_enc (f : N * bytes) : bytes := fst f :: be_enc 3 (len (snd f)) ++ snd f.
Definition comp_wf (f : N * bytes) : Prop := len (snd f) < 2 ^ 24.

(* HAP: 16-bit little endian plaintext length, ciphertext of that length, 16 byte tag *)
Definition hap_enc (ct : bytes) : bytes := le_enc 2 (len ct - 16) ++ ct.
Definition hap_wf (ct : bytes) : Prop := 16 <= len ct /\ len ct - 16 < 2 ^ 16.

(* data stream: size (header included), 12 byte type, 4 byte command, seqno, padding, payload *)
Definition ds_enc (m : ds_msg) : bytes :=
  be_enc 4 (32 + len (ds_payload m)) ++ ds_type m ++ ds_cmd m ++ be_enc 8 (ds_seqno m) ++ be_enc 4 (ds_pad m)
  ++ ds_payload m.
Definition ds_wf (m : ds_msg) : Prop :=
  length (ds_type m) = 12%nat /\ length (ds_cmd m) = 4%nat /\ ds_seqno m < 2 ^ 64 /\ ds_pad m < 2 ^ 32 /\
  32 + len (ds_payload m) < 2 ^ 32.

(* a stream of frames, and what the layer above must see for it *)
Section Stream.
  Variables (F S M : Type).
  Variable enc : F -> bytes.
  Variable step_of : S -> F -> M * S.       (* message delivered for a frame, next parser state *)
  Variable ok : S -> F -> Prop.              (* the frame is acceptable in this state (e.g. authentic) *)

  Definition stream (fs : list F) : bytes := concat (map enc fs).

  Fixpoint delivered (s : S) (fs : list F) : list M :=
    match fs with [] => [] | f :: t => fst (step_of s f) :: delivered (snd (step_of s f)) t end.
  Fixpoint final (s : S) (fs : list F) : S :=
    match fs with [] => s | f :: t => final (snd (step_of s f)) t end.
  Fixpoint all_ok (s : S) (fs : list F) : Prop :=
    match fs with [] => True | f :: t => ok s f /\ all_ok (snd (step_of s f)) t end.
End Stream.
