(* C01 - model of the call routing of pyatv:

     pyatv/core/relayer.py   Relayer.relay / _find_instance / takeover / release / register
     pyatv/core/facade.py    the facade members (self.relay("name")(...)), FacadePower's explicit
                             priority argument, FacadeStream.play_url's feature gate,
                             FacadePushUpdater.start/stop (broadcast), FacadeAppleTV.takeover

   No proofs in this file.  The override table (which protocol class overrides which member of
   the base interface) is NOT fixed here: everything is parametrised by an arbitrary
   registration `reg`, and the theorems of Proofs.v / Properties.v hold for every such table.
   The tables of the real protocols are generated into Gen.v on every run. *)
From Coq Require Import List Bool Arith String.
From PV Require Import Common.Cases.
Import ListNotations.

(* pyatv.const.Protocol *)
Inductive proto := MRP | DMAP | Companion | AirPlay | RAOP.

Definition proto_eqb (a b : proto) : bool :=
  match a, b with
  | MRP, MRP | DMAP, DMAP | Companion, Companion | AirPlay, AirPlay | RAOP, RAOP => true
  | _, _ => false
  end.

Definition all_protos : list proto := [MRP; DMAP; Companion; AirPlay; RAOP].

(* keys of FacadeAppleTV._interfaces *)
Inductive iface :=
  | IFeatures | IRemoteControl | IMetadata | IPower | IPushUpdater | IStream
  | IApps | IUserAccounts | IAudio | IKeyboard | ITouchGestures.

Definition iface_eqb (a b : iface) : bool :=
  match a, b with
  | IFeatures, IFeatures | IRemoteControl, IRemoteControl | IMetadata, IMetadata
  | IPower, IPower | IPushUpdater, IPushUpdater | IStream, IStream | IApps, IApps
  | IUserAccounts, IUserAccounts | IAudio, IAudio | IKeyboard, IKeyboard
  | ITouchGestures, ITouchGestures => true
  | _, _ => false
  end.

Definition all_ifaces : list iface :=
  [IFeatures; IRemoteControl; IMetadata; IPower; IPushUpdater; IStream;
   IApps; IUserAccounts; IAudio; IKeyboard; ITouchGestures].

(* ------------------------------------------------------------------ Relayer *)

(* What Relayer._find_instance can observe of ONE registered instance with respect to ONE
   target name:
     truthy     bool(instance)                     (`if not interface: continue`)
     has_attr   getattr(type(instance), target, None) is truthy
                                                   (otherwise RuntimeError "not in ...")
     overrides  getattr(type(instance), target) != getattr(base_interface, target) *)
Record inst := { truthy : bool; has_attr : bool; overrides : bool }.

(* Relayer._interfaces, seen through one target name: protocol -> instance (or absent) *)
Definition registry := proto -> option inst.

Inductive outcome :=
  | Routed (p : proto)      (* the instance registered for p is returned *)
  | NotSupported            (* exceptions.NotSupportedError *)
  | RuntimeErr.             (* RuntimeError("<target> not in <protocol>") *)

(* Relayer._find_instance(target, priority) - the for loop, branch for branch *)
Fixpoint find_instance (reg : registry) (order : list proto) : outcome :=
  match order with
  | [] => NotSupported
  | p :: rest =>
      match reg p with
      | None => find_instance reg rest                       (* .get() is None: continue *)
      | Some i =>
          if negb (truthy i) then find_instance reg rest     (* falsy instance: continue *)
          else if negb (has_attr i) then RuntimeErr
          else if overrides i then Routed p
          else find_instance reg rest
      end
  end.

(* `priority or self._priorities`: None and the empty list both fall back *)
Definition eff_priority (arg : option (list proto)) (prios : list proto) : list proto :=
  match arg with
  | Some (x :: l) => x :: l
  | _ => prios
  end.

(* Relayer.relay(target, priority): chain(self._takeover_protocol, priority or self._priorities).
   `take` is the list Relayer._takeover_protocol ([] or [p]). *)
Definition relay (prios take : list proto) (arg : option (list proto)) (reg : registry) : outcome :=
  find_instance reg (take ++ eff_priority arg prios).

(* Relayer.takeover(protocol): None stands for InvalidStateError *)
Definition r_takeover (take : list proto) (p : proto) : option (list proto) :=
  match take with
  | [] => Some [p]
  | _ :: _ => None
  end.

(* Relayer.release() *)
Definition r_release (take : list proto) : list proto := [].

(* Relayer.register(instance, protocol): None stands for RuntimeError("not in priority list") *)
Definition r_register (prios : list proto) (regd : list proto) (p : proto) : option (list proto) :=
  if existsb (proto_eqb p) prios
  then Some (if existsb (proto_eqb p) regd then regd else regd ++ [p])   (* dict keeps first position *)
  else None.

(* Relayer.main_protocol: first of chain(takeover, priorities) that is registered *)
Fixpoint main_protocol (registered : proto -> bool) (order : list proto) : option proto :=
  match order with
  | [] => None
  | p :: rest => if registered p then Some p else main_protocol registered rest
  end.

(* ------------------------------------------------------------------ facade members *)

Inductive kind :=
  | KRelay        (* return [await] self.relay("name"[, priority=...])(...)            *)
  | KGated        (* FacadeStream.play_url: NotSupportedError unless PlayUrl is Available *)
  | KBroadcast.   (* FacadePushUpdater.start/stop: every registered instance is called    *)

Inductive callres :=
  | Called (ps : list proto)   (* the member was executed by exactly these instances, in order *)
  | ENotSupported
  | ERuntime.

Definition of_outcome (o : outcome) : callres :=
  match o with
  | Routed p => Called [p]
  | NotSupported => ENotSupported
  | RuntimeErr => ERuntime
  end.

(* one facade member call.
     prios   the list the facade's relayer was constructed with
     arg     the explicit `priority=` argument of the relay call (FacadePower), if any
     take    the relayer's takeover list
     gate    features.in_state(Available, PlayUrl)           (only read by KGated)
     regd    protocols with a registered instance, in registration order (only read by KBroadcast) *)
Definition facade_call (k : kind) (prios : list proto) (arg : option (list proto))
           (take : list proto) (gate : bool) (regd : list proto) (reg : registry) : callres :=
  match k with
  | KRelay => of_outcome (relay prios take arg reg)
  | KGated => if gate then of_outcome (relay prios take arg reg) else ENotSupported
  | KBroadcast => Called regd
  end.

(* a row of the generated facade table (Gen.v) *)
Record row := {
  r_iface : iface;
  r_member : string;              (* public member of the base interface / facade class *)
  r_kind : kind;
  r_target : string;              (* the name passed to self.relay (or called on every instance) *)
  r_arg : option (list proto)     (* explicit priority argument *)
}.

(* ------------------------------------------------------------------ FacadeAppleTV.connect *)

(* the while loop of FacadeAppleTV.connect, seen through one interface and one target name.
   One element of `added` is one SetupData in the order of add_protocol:
     (protocol, what `await setup_data.connect()` returned, the instance it carries for the
      interface - None if it has none).
   A protocol that is already set up is ignored (`in self._protocol_handlers: continue`); the
   instances are registered only `if await setup_data.connect()`; a SetupData whose connect()
   returned False leaves the protocol un-handled, so a later SetupData for it is tried. *)
Fixpoint connect_regs (added : list (proto * bool * option inst)) (handled : list proto)
  : list (proto * inst) :=
  match added with
  | [] => []
  | (p, ok, oi) :: rest =>
      if existsb (proto_eqb p) handled then connect_regs rest handled
      else if ok
           then match oi with Some i => [(p, i)] | None => [] end ++ connect_regs rest (handled ++ [p])
           else connect_regs rest handled
  end.

(* ------------------------------------------------------------------ FacadeAppleTV.takeover *)

(* takeover list of every facade relayer *)
Definition fstate := iface -> list proto.

Definition upd (st : fstate) (X : iface) (v : list proto) : fstate :=
  fun Y => if iface_eqb X Y then v else st Y.

(* the _release closure: for relayer in taken_over: relayer.release() *)
Definition release_all (taken : list iface) (st : fstate) : fstate :=
  fold_left (fun s X => upd s X (r_release (s X))) taken st.

(* the for loop of FacadeAppleTV.takeover.  An element None of `ifs` is a key that is not in
   self._interfaces (`if relayer is None: continue`).  Result: new state and Some taken_over
   (the release token), or the rolled-back state and None (InvalidStateError re-raised). *)
Fixpoint takeover_loop (p : proto) (ifs : list (option iface)) (taken : list iface) (st : fstate)
  : fstate * option (list iface) :=
  match ifs with
  | [] => (st, Some taken)
  | None :: rest => takeover_loop p rest taken st
  | Some X :: rest =>
      match r_takeover (st X) p with
      | None => (release_all taken st, None)
      | Some v => takeover_loop p rest (taken ++ [X]) (upd st X v)
      end
  end.

Definition f_takeover (p : proto) (ifs : list (option iface)) (st : fstate) :=
  takeover_loop p ifs [] st.

(* ------------------------------------------------------------------ histories *)

Inductive op :=
  | OTake (p : proto) (ifs : list (option iface))   (* token k := atv.takeover(p, *ifs), k = number of earlier OTake *)
  | ORelease (k : nat).                             (* token k () *)

Inductive opres := RTaken | RInvalidState | RReleased.

(* toks: one entry per OTake so far: (protocol, taken_over captured by the _release closure,
   has the token been called).  A failed takeover returns no token and is recorded with an
   empty list.  The flag is history only: the Python closure does not know it. *)
Definition token := (proto * list iface * bool)%type.
Record hst := { fs : fstate; toks : list token }.

Fixpoint mark (k : nat) (l : list token) : list token :=
  match l, k with
  | [], _ => []
  | (p, L, _) :: t, O => (p, L, true) :: t
  | x :: t, S k' => x :: mark k' t
  end.

Definition step (h : hst) (o : op) : hst * opres :=
  match o with
  | OTake p ifs =>
      match f_takeover p ifs (fs h) with
      | (s', Some L) => ({| fs := s'; toks := toks h ++ [(p, L, false)] |}, RTaken)
      | (s', None) => ({| fs := s'; toks := toks h ++ [(p, [], false)] |}, RInvalidState)
      end
  | ORelease k =>
      match nth_error (toks h) k with
      | Some (_, L, _) => ({| fs := release_all L (fs h); toks := mark k (toks h) |}, RReleased)
      | None => (h, RReleased)           (* no such token: cannot be written in Python *)
      end
  end.

Fixpoint run (h : hst) (ops : list op) : hst * list opres :=
  match ops with
  | [] => (h, [])
  | o :: rest =>
      let '(h1, r) := step h o in
      let '(h2, rs) := run h1 rest in (h2, r :: rs)
  end.

Definition st0 : fstate := fun _ => [].
Definition h0 : hst := {| fs := st0; toks := [] |}.

(* ------------------------------------------------------------------ correspondence *)

Definition outcome_eqb (a b : outcome) : bool :=
  match a, b with
  | Routed p, Routed q => proto_eqb p q
  | NotSupported, NotSupported | RuntimeErr, RuntimeErr => true
  | _, _ => false
  end.

Definition callres_eqb (a b : callres) : bool :=
  match a, b with
  | Called x, Called y => list_beq proto_eqb x y
  | ENotSupported, ENotSupported | ERuntime, ERuntime => true
  | _, _ => false
  end.

Definition opres_eqb (a b : opres) : bool :=
  match a, b with
  | RTaken, RTaken | RInvalidState, RInvalidState | RReleased, RReleased => true
  | _, _ => false
  end.

(* a registration given as an association list *)
Fixpoint reg_of (l : list (proto * inst)) : registry :=
  fun p => match l with
           | [] => None
           | (q, i) :: t => if proto_eqb q p then Some i else reg_of t p
           end.

Definition mkI (t h o : bool) : inst := {| truthy := t; has_attr := h; overrides := o |}.

(* (1) a bare Relayer: priorities it was built with, takeover list, explicit priority
       argument, registration as seen for the target, observed result of relay(target) *)
Definition check_relay (c : list proto * list proto * option (list proto) * list (proto * inst) * outcome) : bool :=
  let '(prios, take, arg, reg, obs) := c in
  outcome_eqb (relay prios take arg (reg_of reg)) obs.

(* (1b) Relayer.main_protocol and Relayer.register on the same bare Relayer:
        priorities, takeover list, protocols registered (in order), observed main_protocol *)
Definition check_main (c : list proto * list proto * list proto * option proto) : bool :=
  let '(prios, take, regd, obs) := c in
  opt_beq proto_eqb (main_protocol (fun p => existsb (proto_eqb p) regd) (take ++ prios)) obs.

(*      priorities, protocols registered so far, protocol being registered, observed new
        registration order (None = RuntimeError) *)
Definition check_register (c : list proto * list proto * proto * option (list proto)) : bool :=
  let '(prios, regd, p, obs) := c in
  opt_beq (list_beq proto_eqb) (r_register prios regd p) obs.

(* (2) one member of the real facade after the real FacadeAppleTV.connect: row of the generated
       table, takeover list, gate, the SetupData added (with the result of their connect() and the
       instance as seen for the member), observation *)
Definition check_facade (rows : list row) (prio_of : iface -> list proto)
           (c : nat * list proto * bool * list (proto * bool * option inst) * callres) : bool :=
  let '(n, take, gate, added, obs) := c in
  let regs := connect_regs added [] in
  match nth_error rows n with
  | None => false
  | Some r =>
      callres_eqb (facade_call (r_kind r) (prio_of (r_iface r)) (r_arg r) take gate
                               (map fst regs) (reg_of regs)) obs
  end.

(* (3) a takeover/release history on the real FacadeAppleTV: ops, observed per-op results,
       observed takeover list of every facade relayer at the end (order of all_ifaces) *)
Definition check_history (c : list op * list opres * list (list proto)) : bool :=
  let '(ops, res, final) := c in
  let '(h, rs) := run h0 ops in
  list_beq opres_eqb rs res &&
  list_beq (list_beq proto_eqb) (map (fs h) all_ifaces) final.
