(* C01 - the property, written from the property text (not from the code). *)
From Coq Require Import List Bool Arith String.
From PV Require Import Common.Cases C01.Model.
Import ListNotations.


(* "MRP, DMAP, Companion, AirPlay, RAOP; Companion first for power" *)
Definition text_default : list proto := [MRP; DMAP; Companion; AirPlay; RAOP].
Definition text_power : list proto := [Companion; MRP; DMAP; AirPlay; RAOP].
Definition text_order (i : iface) : list proto :=
  match i with IPower => text_power | _ => text_default end.

(* "connected protocol that actually implements that member": an instance is registered for
   the protocol and its class overrides the member of the base interface *)
Definition implements (reg : registry) (p : proto) : bool :=
  match reg p with Some i => overrides i | None => false end.

Definition connected (reg : registry) (p : proto) : bool :=
  match reg p with Some _ => true | None => false end.

(* every registered object is an instance of a subclass of the base interface (so every member
   exists on its class) and is truthy - true of every object a real setup() registers, which
   is re-established from the source on every run (Gen.real_truthy, Gen.real_subclass) *)
Definition conforming (reg : registry) : Prop :=
  forall p i, reg p = Some i -> truthy i = true /\ has_attr i = true.

(* p is the first implementing protocol of `order` *)
Definition first_implementing (reg : registry) (order : list proto) (p : proto) : Prop :=
  exists pre post, order = pre ++ p :: post /\ implements reg p = true /\
                   forall q, In q pre -> implements reg q = false.

(* the routing rule of the property text as a function: the holder of a takeover first,
   then the priority order; None = "fails with the not-supported error" *)
Definition route_text (prio : list proto) (holder : option proto) (reg : registry) : option proto :=
  match holder with
  | Some h => if implements reg h then Some h else find (implements reg) prio
  | None => find (implements reg) prio
  end.

Definition text_result (o : option proto) : callres :=
  match o with Some p => Called [p] | None => ENotSupported end.

Definition opt_list {A} (o : option A) : list A :=
  match o with Some x => [x] | None => [] end.

(* the three members that are documented special cases *)
Definition expected_kind (i : iface) (m : string) : kind :=
  match i with
  | IStream => if String.eqb m "play_url"%string then KGated else KRelay
  | IPushUpdater => if String.eqb m "start"%string || String.eqb m "stop"%string then KBroadcast else KRelay
  | _ => KRelay
  end.

(* ---------------------------------------------------------------- takeover *)

Definition memb (X : iface) (L : list iface) : bool := existsb (iface_eqb X) L.

(* the keys of a takeover request that name an interface of the device object *)
Fixpoint known (ifs : list (option iface)) : list iface :=
  match ifs with
  | [] => []
  | None :: r => known r
  | Some X :: r => X :: known r
  end.

Fixpoint nodupb (L : list iface) : bool :=
  match L with
  | [] => true
  | X :: r => negb (memb X r) && nodupb r
  end.

Definition is_free (st : fstate) (X : iface) : bool :=
  match st X with [] => true | _ => false end.

(* a takeover request can be granted iff every requested interface is free (and none is
   requested twice) *)
Definition grantable (ifs : list (option iface)) (st : fstate) : bool :=
  forallb (is_free st) (known ifs) && nodupb (known ifs).

(* protocols of the tokens that have not been called and that cover X *)
Fixpoint owners (toks : list token) (X : iface) : list proto :=
  match toks with
  | [] => []
  | (p, L, r) :: t => (if negb r && memb X L then [p] else []) ++ owners t X
  end.

(* side condition on histories, stated on the operations alone: a token is called only after it
   was returned (k < number of takeovers so far) and at most once *)
Fixpoint wf_ops (ntok : nat) (rel : list nat) (ops : list op) : bool :=
  match ops with
  | [] => true
  | OTake _ _ :: t => wf_ops (S ntok) rel t
  | ORelease k :: t => (k <? ntok) && negb (existsb (Nat.eqb k) rel) && wf_ops ntok (k :: rel) t
  end.

(* ---------------------------------------------------------------- generated tables *)

Definition kind_eqb (a b : kind) : bool :=
  match a, b with
  | KRelay, KRelay | KGated, KGated | KBroadcast, KBroadcast => true
  | _, _ => false
  end.

(* a row of the facade table is as the property text needs it: the member relays its own name,
   is of the expected kind, and the order it is relayed with is the order of the text *)
Definition row_ok (relayer_prio : iface -> list proto) (r : row) : bool :=
  String.eqb (r_target r) (r_member r) &&
  kind_eqb (r_kind r) (expected_kind (r_iface r) (r_member r)) &&
  list_beq proto_eqb (eff_priority (r_arg r) (relayer_prio (r_iface r))) (text_order (r_iface r)).
