(* C01 - obligations about the GENERATED tables (Gen.v is re-emitted from the source on every
   run; each lemma below is a finite fact closed by vm_compute) and the lemmas that combine
   them with the general results of Proofs.v. *)
From Coq Require Import List Bool String.
From PV Require Import Common.Cases C01.Model C01.Spec C01.Proofs C01.Gen.
Import ListNotations.

(* DEFAULT_PRIORITIES and FacadePower.OVERRIDE_PRIORITIES, as parsed from facade.py and as
   imported, are the orders of the property text *)
Lemma gen_prios :
  default_ast = text_default /\ default_rt = text_default /\
  power_ast = text_power /\ power_rt = text_power.
Proof. vm_compute. repeat split; reflexivity. Qed.

(* both orders are duplicate-free and contain all five protocols *)
Lemma text_orders_complete : forall i p, In p (text_order i).
Proof. intros i p. destruct i, p; simpl; tauto. Qed.

Lemma text_orders_nodup : forall i, NoDup (text_order i).
Proof.
  intro i. assert (D : NoDup text_default /\ NoDup text_power).
  { split; repeat constructor; simpl; intuition discriminate. }
  destruct i; simpl; tauto.
Qed.

(* every facade member relays its own name, is of the expected kind, with the order of the text *)
Lemma gen_rows_ok : forallb (row_ok relayer_prio) rows = true.
Proof. vm_compute. reflexivity. Qed.

(* the facade table has exactly one row per public member of the ten relayed interfaces *)
Lemma gen_rows_complete :
  map (fun r => (r_iface r, r_member r)) rows =
  flat_map (fun im => map (pair (fst im)) (snd im)) members.
Proof. vm_compute. reflexivity. Qed.

Lemma gen_ifaces :
  facade_ifaces = all_ifaces /\
  map fst members = [IRemoteControl; IMetadata; IPower; IAudio; IApps; IUserAccounts;
                     IKeyboard; ITouchGestures; IStream; IPushUpdater].
Proof. vm_compute. split; reflexivity. Qed.

(* every object registered by a real setup() is truthy and an instance of its base interface *)
Lemma gen_real_conforming : real_truthy && real_subclass = true.
Proof. vm_compute. reflexivity. Qed.

Lemma kind_eqb_eq a b : kind_eqb a b = true -> a = b.
Proof. destruct a, b; simpl; intro H; try reflexivity; discriminate. Qed.

Lemma list_beq_proto a b : list_beq proto_eqb a b = true -> a = b.
Proof. apply (list_beq_eq proto_eqb proto_eqb_eq). Qed.

Lemma row_facts r : In r rows ->
  r_target r = r_member r /\
  r_kind r = expected_kind (r_iface r) (r_member r) /\
  eff_priority (r_arg r) (relayer_prio (r_iface r)) = text_order (r_iface r).
Proof.
  intro I. pose proof (proj1 (forallb_forall _ _) gen_rows_ok r I) as H. unfold row_ok in H.
  apply andb_true_iff in H as [H H3]. apply andb_true_iff in H as [H1 H2].
  repeat split.
  - now apply String.eqb_eq.
  - now apply kind_eqb_eq.
  - now apply list_beq_proto.
Qed.

(* what a call of a facade member does, in the words of the property text *)
Definition member_spec (r : row) (holder : option proto) (gate : bool) (regd : list proto)
           (reg : registry) : callres :=
  match expected_kind (r_iface r) (r_member r) with
  | KRelay => text_result (route_text (text_order (r_iface r)) holder reg)
  | KGated => if gate then text_result (route_text (text_order (r_iface r)) holder reg) else ENotSupported
  | KBroadcast => Called regd
  end.

Lemma every_member_routed r : In r rows ->
  forall holder gate regd reg, conforming reg ->
  facade_call (r_kind r) (relayer_prio (r_iface r)) (r_arg r) (opt_list holder) gate regd reg =
  member_spec r holder gate regd reg.
Proof.
  intros I holder gate regd reg C. destruct (row_facts r I) as (_ & K & O).
  unfold member_spec, facade_call. rewrite K.
  destruct (expected_kind (r_iface r) (r_member r)).
  - now rewrite (relay_text _ _ _ _ C), O.
  - destruct gate; [|reflexivity]. now rewrite (relay_text _ _ _ _ C), O.
  - reflexivity.
Qed.

(* the registration the real protocols of the set S produce for member m of interface i *)
Definition real_reg (S : list proto) (i : iface) (m : string) : registry :=
  fun p =>
    if existsb (proto_eqb p) S
    then match find (fun e => proto_eqb (fst (fst e)) p && iface_eqb (snd (fst e)) i) real_impl with
         | Some (_, _, ms) => Some {| truthy := real_truthy; has_attr := real_subclass;
                                     overrides := existsb (String.eqb m) ms |}
         | None => None
         end
    else None.

Lemma real_reg_conforming S i m : conforming (real_reg S i m).
Proof.
  intros p x. unfold real_reg. destruct (existsb (proto_eqb p) S); [|discriminate].
  destruct (find _ real_impl) as [[[a b] ms]|]; [|discriminate].
  intro H. inversion H; subst. simpl.
  pose proof gen_real_conforming as G. apply andb_true_iff in G. exact G.
Qed.

(* any history: every interface has at most one holder; a well-formed one: the holder is the
   protocol of the un-called token that covers the interface *)
Lemma single_as_option (l : list proto) : List.length l <= 1 -> exists o, l = opt_list o.
Proof.
  destruct l as [|a [|b t]]; simpl; intro H.
  - now exists None.
  - now exists (Some a).
  - exfalso. inversion H. inversion H1.
Qed.

Lemma after_any_history ops r : In r rows ->
  forall gate regd reg, conforming reg ->
  exists holder,
    fs (fst (run h0 ops)) (r_iface r) = opt_list holder /\
    (wf_ops 0 [] ops = true -> opt_list holder = owners (toks (fst (run h0 ops))) (r_iface r)) /\
    facade_call (r_kind r) (relayer_prio (r_iface r)) (r_arg r)
                (fs (fst (run h0 ops)) (r_iface r)) gate regd reg =
    member_spec r holder gate regd reg.
Proof.
  intros I gate regd reg C.
  assert (S0 : forall X, List.length (fs h0 X) <= 1) by (intro X; simpl; auto).
  destruct (single_as_option _ (run_single ops h0 S0 (r_iface r))) as [holder E].
  exists holder. split; [exact E|]. split.
  - intro W. rewrite <- E. exact (proj1 (history_holder ops W (r_iface r))).
  - rewrite E. now apply every_member_routed.
Qed.
