(* C01 - lemmas.  Part 1: Relayer._find_instance / relay.  Part 2: FacadeAppleTV.takeover.
   Part 3: histories. *)
From Coq Require Import List Bool Arith Lia.
From PV Require Import Common.Cases C01.Model C01.Spec.
Import ListNotations.

Lemma proto_eqb_eq a b : proto_eqb a b = true <-> a = b.
Proof. destruct a, b; simpl; split; intro H; try reflexivity; discriminate. Qed.

Lemma iface_eqb_eq a b : iface_eqb a b = true <-> a = b.
Proof. destruct a, b; simpl; split; intro H; try reflexivity; discriminate. Qed.

Lemma iface_eqb_refl a : iface_eqb a a = true.
Proof. now apply iface_eqb_eq. Qed.

Lemma iface_eqb_neq a b : a <> b -> iface_eqb a b = false.
Proof. intro N. destruct (iface_eqb a b) eqn:E; [|reflexivity]. apply iface_eqb_eq in E. contradiction. Qed.

(* ------------------------------------------------------------------ part 1 *)

(* the loop stops at p: p has a truthy instance whose class lacks the member or overrides it *)
Definition stops (reg : registry) (p : proto) : bool :=
  match reg p with
  | Some i => truthy i && (negb (has_attr i) || overrides i)
  | None => false
  end.
Definition lacks (reg : registry) (p : proto) : bool :=
  match reg p with Some i => negb (has_attr i) | None => false end.

(* complete functional characterisation, no hypothesis on the registration *)
Lemma find_general reg order :
  find_instance reg order =
  match find (stops reg) order with
  | None => NotSupported
  | Some p => if lacks reg p then RuntimeErr else Routed p
  end.
Proof.
  induction order as [|p t IH]; simpl; [reflexivity|].
  unfold stops at 1. unfold lacks at 1.
  destruct (reg p) as [[tr ha ov]|] eqn:E; simpl.
  - destruct tr; simpl; [|exact IH].
    destruct ha; simpl.
    + destruct ov; simpl.
      * unfold lacks. rewrite E. reflexivity.
      * exact IH.
    + unfold lacks. rewrite E. reflexivity.
  - exact IH.
Qed.

Lemma stops_conforming reg : conforming reg -> forall p, stops reg p = implements reg p.
Proof.
  intros C p. unfold stops, implements. destruct (reg p) as [i|] eqn:E; [|reflexivity].
  destruct (C p i E) as [T H]. rewrite T, H. reflexivity.
Qed.

Lemma lacks_conforming reg : conforming reg -> forall p, lacks reg p = false.
Proof.
  intros C p. unfold lacks. destruct (reg p) as [i|] eqn:E; [|reflexivity].
  destruct (C p i E) as [_ H]. now rewrite H.
Qed.

Lemma find_ext {A} (f g : A -> bool) l : (forall x, f x = g x) -> find f l = find g l.
Proof. intro H. induction l as [|x t IH]; simpl; [reflexivity|]. rewrite H, IH. reflexivity. Qed.

Lemma find_conforming reg order : conforming reg ->
  find_instance reg order =
  match find (implements reg) order with Some p => Routed p | None => NotSupported end.
Proof.
  intro C. rewrite find_general. rewrite (find_ext _ _ order (stops_conforming reg C)).
  destruct (find (implements reg) order); [|reflexivity]. now rewrite lacks_conforming.
Qed.

(* find returns the FIRST element satisfying the test *)
Lemma find_first {A} (f : A -> bool) l x :
  find f l = Some x <->
  exists pre post, l = pre ++ x :: post /\ f x = true /\ forall y, In y pre -> f y = false.
Proof.
  induction l as [|a t IH]; simpl.
  - split; [discriminate|]. intros (pre & post & E & _). destruct pre; discriminate.
  - destruct (f a) eqn:Fa.
    + split.
      * intro H. inversion H; subst. exists [], t. repeat split; auto. intros y [].
      * intros (pre & post & E & Fx & N). destruct pre as [|b pre].
        -- simpl in E. inversion E. reflexivity.
        -- simpl in E. inversion E; subst. rewrite (N b (or_introl eq_refl)) in Fa. discriminate.
    + rewrite IH. split.
      * intros (pre & post & E & Fx & N). exists (a :: pre), post. subst. repeat split; auto.
        intros y [<-|Hy]; auto.
      * intros (pre & post & E & Fx & N). destruct pre as [|b pre].
        -- simpl in E. inversion E; subst. rewrite Fx in Fa. discriminate.
        -- simpl in E. inversion E; subst. exists pre, post. repeat split; auto.
           intros y Hy. apply N. now right.
Qed.

Lemma find_none_iff {A} (f : A -> bool) l :
  find f l = None <-> forall y, In y l -> f y = false.
Proof.
  split; [apply find_none|]. induction l as [|a t IH]; simpl; [reflexivity|].
  intro H. rewrite (H a (or_introl eq_refl)). apply IH. intros y Hy. apply H. now right.
Qed.

Lemma relay_routed reg order p : conforming reg ->
  (find_instance reg order = Routed p <-> first_implementing reg order p).
Proof.
  intro C. rewrite (find_conforming reg order C). unfold first_implementing.
  rewrite <- find_first. destruct (find (implements reg) order); split; intro H;
    try discriminate; inversion H; reflexivity.
Qed.

Lemma relay_none reg order : conforming reg ->
  (find_instance reg order = NotSupported <-> forall q, In q order -> implements reg q = false).
Proof.
  intro C. rewrite (find_conforming reg order C). rewrite <- find_none_iff.
  destruct (find (implements reg) order); split; intro H; try discriminate; reflexivity.
Qed.

Lemma relay_never_runtime reg order : conforming reg -> find_instance reg order <> RuntimeErr.
Proof.
  intro C. rewrite (find_conforming reg order C). destruct (find (implements reg) order); discriminate.
Qed.

(* never a protocol that merely inherits the default, never an unregistered one - no hypothesis *)
Lemma routed_overrides reg order p :
  find_instance reg order = Routed p ->
  In p order /\ exists i, reg p = Some i /\ truthy i = true /\ overrides i = true.
Proof.
  induction order as [|q t IH]; simpl; [discriminate|].
  destruct (reg q) as [[tr ha ov]|] eqn:E; simpl.
  - destruct tr; simpl.
    + destruct ha; simpl; [|discriminate]. destruct ov; simpl.
      * intro H. inversion H; subst. split; [now left|]. exists {| truthy := true; has_attr := true; overrides := true |}. auto.
      * intro H. destruct (IH H) as [I J]. split; [now right|exact J].
    + intro H. destruct (IH H) as [I J]. split; [now right|exact J].
  - intro H. destruct (IH H) as [I J]. split; [now right|exact J].
Qed.

(* the relay of a facade relayer whose takeover list is the holder (if any) is the text's rule *)
Lemma relay_text prios arg holder reg : conforming reg ->
  of_outcome (relay prios (opt_list holder) arg reg) =
  text_result (route_text (eff_priority arg prios) holder reg).
Proof.
  intro C. unfold relay. rewrite (find_conforming _ _ C). unfold route_text.
  destruct holder as [h|]; simpl.
  - destruct (implements reg h); [reflexivity|].
    destruct (find (implements reg) (eff_priority arg prios)); reflexivity.
  - destruct (find (implements reg) (eff_priority arg prios)); reflexivity.
Qed.

(* with a priority list that contains every protocol, "not supported" means that NO connected
   protocol implements the member *)
Lemma route_text_none prio holder reg : (forall p, In p prio) ->
  (route_text prio holder reg = None <-> forall p, implements reg p = false).
Proof.
  intro All. unfold route_text. split.
  - intro H. assert (F : find (implements reg) prio = None).
    { destruct holder as [h|]; [|exact H]. destruct (implements reg h); [discriminate|exact H]. }
    intro p. exact (proj1 (find_none_iff _ _) F p (All p)).
  - intro H. assert (F : find (implements reg) prio = None).
    { apply find_none_iff. intros y _. apply H. }
    destruct holder as [h|]; [|exact F]. rewrite (H h). exact F.
Qed.

(* the protocol chosen by the text's rule: the holder if it implements, otherwise the first
   implementing protocol of the priority order, and nobody implementing it comes before *)
Lemma route_text_some prio holder reg p :
  route_text prio holder reg = Some p <->
  (holder = Some p /\ implements reg p = true) \/
  ((forall h, holder = Some h -> implements reg h = false) /\ first_implementing reg prio p).
Proof.
  unfold route_text, first_implementing. destruct holder as [h|].
  - destruct (implements reg h) eqn:Ih.
    + split.
      * intro H. inversion H; subst. left. auto.
      * intros [[E _]|[N _]]; [now inversion E|]. rewrite (N h eq_refl) in Ih. discriminate.
    + rewrite find_first. split.
      * intro H. right. split; [|exact H]. intros h' E. inversion E; subst. exact Ih.
      * intros [[E I]|[_ H]]; [|exact H]. inversion E; subst. rewrite I in Ih. discriminate.
  - rewrite find_first. split.
    + intro H. right. split; [intros h E; discriminate|exact H].
    + intros [[E _]|[_ H]]; [discriminate|exact H].
Qed.

(* ------------------------------------------------------------------ part 2 *)

Lemma upd_same st X v : upd st X v X = v.
Proof. unfold upd. now rewrite iface_eqb_refl. Qed.

Lemma upd_other st X v Y : X <> Y -> upd st X v Y = st Y.
Proof. intro N. unfold upd. now rewrite (iface_eqb_neq X Y N). Qed.

Lemma memb_In X L : memb X L = true <-> In X L.
Proof.
  unfold memb. rewrite existsb_exists. split.
  - intros (y & I & E). apply iface_eqb_eq in E. now subst.
  - intro I. exists X. split; [exact I|apply iface_eqb_refl].
Qed.

Lemma memb_app X A B : memb X (A ++ B) = memb X A || memb X B.
Proof. unfold memb. apply existsb_app. Qed.

Lemma memb_cons X Y L : memb X (Y :: L) = iface_eqb X Y || memb X L.
Proof. reflexivity. Qed.

Lemma iface_eqb_sym a b : iface_eqb a b = iface_eqb b a.
Proof. destruct a, b; reflexivity. Qed.

Lemma release_all_spec taken : forall st X,
  release_all taken st X = if memb X taken then [] else st X.
Proof.
  induction taken as [|a t IH]; intros st X; [reflexivity|].
  unfold release_all in *. simpl fold_left. rewrite IH. rewrite memb_cons.
  unfold r_release. destruct (memb X t); [now rewrite orb_true_r|]. rewrite orb_false_r.
  unfold upd. rewrite (iface_eqb_sym X a). destruct (iface_eqb a X); reflexivity.
Qed.

Lemma r_takeover_some cur p v : r_takeover cur p = Some v -> cur = [] /\ v = [p].
Proof. destruct cur; simpl; intro H; [|discriminate]. inversion H. auto. Qed.

Lemma r_takeover_none cur p : r_takeover cur p = None -> cur <> [].
Proof. destruct cur; simpl; intro H; [discriminate|]. discriminate. Qed.

(* failure: everything taken so far is given back, nothing else is touched *)
Lemma loop_fail p ifs : forall taken st st',
  takeover_loop p ifs taken st = (st', None) ->
  forall X, st' X = if memb X taken then [] else st X.
Proof.
  induction ifs as [|[Y|] rest IH]; intros taken st st' H X; simpl in H.
  - discriminate.
  - destruct (r_takeover (st Y) p) as [v|] eqn:T.
    + destruct (r_takeover_some _ _ _ T) as [F ->].
      rewrite (IH _ _ _ H X). rewrite memb_app. simpl. rewrite orb_false_r.
      destruct (memb X taken); [reflexivity|]. simpl.
      destruct (iface_eqb X Y) eqn:E.
      * apply iface_eqb_eq in E. subst. now rewrite F.
      * apply upd_other. intro N. subst. now rewrite iface_eqb_refl in E.
    + inversion H; subst. apply release_all_spec.
  - exact (IH _ _ _ H X).
Qed.

(* success: exactly the known keys were acquired, all were free, none twice *)
Lemma loop_ok p ifs : forall taken st st' L,
  takeover_loop p ifs taken st = (st', Some L) ->
  L = taken ++ known ifs /\
  (forall X, In X (known ifs) -> st X = []) /\
  nodupb (known ifs) = true /\
  (forall X, st' X = if memb X (known ifs) then [p] else st X).
Proof.
  induction ifs as [|[Y|] rest IH]; intros taken st st' L H; simpl in H.
  - inversion H; subst. simpl. rewrite app_nil_r. repeat split; auto. intros X [].
  - destruct (r_takeover (st Y) p) as [v|] eqn:T; [|discriminate].
    destruct (r_takeover_some _ _ _ T) as [F ->].
    destruct (IH _ _ _ _ H) as (EL & Free & ND & Upd).
    assert (NY : memb Y (known rest) = false).
    { destruct (memb Y (known rest)) eqn:M; [|reflexivity].
      apply memb_In in M. specialize (Free Y M). rewrite upd_same in Free. discriminate. }
    simpl known. repeat split.
    + rewrite EL, <- app_assoc. reflexivity.
    + intros X [<-|I]; [exact F|]. specialize (Free X I).
      destruct (iface_eqb Y X) eqn:E.
      * apply iface_eqb_eq in E. subst. rewrite upd_same in Free. discriminate.
      * unfold upd in Free. now rewrite E in Free.
    + simpl. now rewrite NY, ND.
    + intro X. rewrite Upd, memb_cons.
      destruct (memb X (known rest)); [now rewrite orb_true_r|]. rewrite orb_false_r.
      rewrite (iface_eqb_sym X Y). unfold upd. destruct (iface_eqb Y X); reflexivity.
  - exact (IH _ _ _ _ H).
Qed.

Lemma forallb_free_In st L : forallb (is_free st) L = true <-> forall X, In X L -> st X = [].
Proof.
  rewrite forallb_forall. unfold is_free. split; intros H X I; specialize (H X I).
  - destruct (st X); [reflexivity|discriminate].
  - now rewrite H.
Qed.

(* the request is granted when every known key is free and none occurs twice *)
Lemma loop_grant p ifs : forall taken st,
  (forall X, In X (known ifs) -> st X = []) -> nodupb (known ifs) = true ->
  exists st', takeover_loop p ifs taken st = (st', Some (taken ++ known ifs)).
Proof.
  induction ifs as [|[Y|] rest IH]; intros taken st Free ND; simpl.
  - exists st. now rewrite app_nil_r.
  - simpl in Free, ND. apply andb_true_iff in ND as [NY ND]. apply negb_true_iff in NY.
    rewrite (Free Y (or_introl eq_refl)). simpl.
    destruct (IH (taken ++ [Y]) (upd st Y [p])) as [st' E]; [|exact ND|].
    + intros X I. rewrite upd_other; [apply Free; now right|].
      intro N. subst. apply memb_In in I. rewrite I in NY. discriminate.
    + exists st'. rewrite E, <- app_assoc. reflexivity.
  - apply IH; assumption.
Qed.

(* all-or-nothing, as one statement *)
Lemma takeover_all_or_nothing p ifs st :
  if grantable ifs st
  then exists st', f_takeover p ifs st = (st', Some (known ifs)) /\
                   forall X, st' X = if memb X (known ifs) then [p] else st X
  else exists st', f_takeover p ifs st = (st', None) /\ forall X, st' X = st X.
Proof.
  unfold grantable, f_takeover. destruct (forallb (is_free st) (known ifs) && nodupb (known ifs)) eqn:G.
  - apply andb_true_iff in G as [F ND]. rewrite forallb_free_In in F.
    destruct (loop_grant p ifs [] st F ND) as [st' E]. exists st'. split; [exact E|].
    exact (proj2 (proj2 (proj2 (loop_ok _ _ _ _ _ _ E)))).
  - destruct (takeover_loop p ifs [] st) as [st' [L|]] eqn:E.
    + destruct (loop_ok _ _ _ _ _ _ E) as (_ & F & ND & _).
      apply forallb_free_In in F. rewrite F, ND in G. discriminate.
    + exists st'. split; [reflexivity|]. intro X. exact (loop_fail _ _ _ _ _ E X).
Qed.

(* ------------------------------------------------------------------ part 3 *)

(* what ties the flags of the model state to the operations seen so far *)
Definition linked (toks : list token) (ntok : nat) (rel : list nat) : Prop :=
  length toks = ntok /\
  forall k, existsb (Nat.eqb k) rel = true <-> exists p L, nth_error toks k = Some (p, L, true).

Definition inv (h : hst) : Prop :=
  forall X, fs h X = owners (toks h) X /\ length (fs h X) <= 1.

Lemma owners_app A B X : owners (A ++ B) X = owners A X ++ owners B X.
Proof.
  induction A as [|[[p L] r] t IH]; simpl; [reflexivity|]. now rewrite IH, app_assoc.
Qed.

Lemma length_mark k : forall l, length (mark k l) = length l.
Proof.
  induction k as [|k IH]; intros [|[[p L] r] t]; simpl; auto.
Qed.

Lemma nth_error_mark k : forall l j,
  nth_error (mark k l) j =
  if Nat.eqb j k then match nth_error l k with Some (p, L, _) => Some (p, L, true) | None => None end
  else nth_error l j.
Proof.
  induction k as [|k IH]; intros [|[[p L] r] t] j; simpl.
  - destruct j; simpl; reflexivity.
  - destruct j; simpl; reflexivity.
  - destruct j; simpl; [reflexivity|]. destruct (Nat.eqb j k); reflexivity.
  - destruct j; simpl; [reflexivity|]. apply IH.
Qed.

Lemma live_in_owners X p L : forall l k,
  nth_error l k = Some (p, L, false) -> memb X L = true -> In p (owners l X).
Proof.
  induction l as [|[[q M] r] t IH]; intros [|k] H Mx; simpl in *; try discriminate.
  - inversion H; subst. simpl. rewrite Mx. now left.
  - apply in_or_app. right. exact (IH k H Mx).
Qed.

Lemma owners_mark X p L : forall l k,
  length (owners l X) <= 1 -> nth_error l k = Some (p, L, false) ->
  owners (mark k l) X = if memb X L then [] else owners l X.
Proof.
  induction l as [|[[q M] r] t IH]; intros [|k] Len H; simpl in *; try discriminate.
  - inversion H; subst. simpl in *. destruct (memb X L); simpl in *; [|reflexivity].
    destruct (owners t X); [reflexivity|simpl in Len; lia].
  - rewrite app_length in Len.
    rewrite (IH k); [|lia|exact H].
    destruct (memb X L) eqn:Mx; [|reflexivity].
    pose proof (live_in_owners X p L t k H Mx) as I.
    destruct (owners t X) as [|a o]; [destruct I|].
    destruct (negb r && memb X M); simpl in *; [lia|reflexivity].
Qed.

Lemma f_takeover_cases p ifs st :
  (exists st', f_takeover p ifs st = (st', Some (known ifs)) /\
               (forall X, In X (known ifs) -> st X = []) /\
               forall X, st' X = if memb X (known ifs) then [p] else st X) \/
  (exists st', f_takeover p ifs st = (st', None) /\ forall X, st' X = st X).
Proof.
  pose proof (takeover_all_or_nothing p ifs st) as H. unfold grantable in H.
  destruct (forallb (is_free st) (known ifs) && nodupb (known ifs)) eqn:G.
  - left. destruct H as (st' & E & U). exists st'. repeat split; auto.
    apply andb_true_iff in G as [F _]. now apply forallb_free_In.
  - right. exact H.
Qed.

Lemma step_inv h o ntok rel :
  inv h -> linked (toks h) ntok rel -> wf_ops ntok rel [o] = true ->
  inv (fst (step h o)) /\
  match o with
  | OTake _ _ => linked (toks (fst (step h o))) (S ntok) rel
  | ORelease k => linked (toks (fst (step h o))) ntok (k :: rel)
  end.
Proof.
  intros I [Len Lk] W. destruct o as [p ifs|k]; simpl.
  - destruct (f_takeover_cases p ifs (fs h)) as [(st' & E & Free & U)|(st' & E & U)]; rewrite E; simpl.
    + split.
      * unfold inv; simpl. intro X. rewrite owners_app. simpl. rewrite app_nil_r, U.
        destruct (I X) as [Ix Lx]. destruct (memb X (known ifs)) eqn:M.
        -- apply memb_In in M. rewrite <- Ix, (Free X M). simpl. split; [reflexivity|lia].
        -- rewrite app_nil_r. split; assumption.
      * split; [rewrite app_length; simpl; lia|]. intro j. rewrite Lk. split.
        -- intros (q & L & N). exists q, L. rewrite nth_error_app1; [exact N|].
           apply nth_error_Some. now rewrite N.
        -- intros (q & L & N). exists q, L. destruct (Nat.lt_ge_cases j (length (toks h))) as [Lt|Ge].
           ++ now rewrite nth_error_app1 in N.
           ++ rewrite nth_error_app2 in N by exact Ge.
              destruct (j - length (toks h)) as [|d]; simpl in N; [discriminate|]. destruct d; discriminate.
    + split.
      * unfold inv; simpl. intro X. rewrite owners_app. simpl. rewrite !app_nil_r, U. exact (I X).
      * split; [rewrite app_length; simpl; lia|]. intro j. rewrite Lk. split.
        -- intros (q & L & N). exists q, L. rewrite nth_error_app1; [exact N|].
           apply nth_error_Some. now rewrite N.
        -- intros (q & L & N). exists q, L. destruct (Nat.lt_ge_cases j (length (toks h))) as [Lt|Ge].
           ++ now rewrite nth_error_app1 in N.
           ++ rewrite nth_error_app2 in N by exact Ge.
              destruct (j - length (toks h)) as [|d]; simpl in N; [discriminate|]. destruct d; discriminate.
  - simpl in W. rewrite andb_true_r in W. apply andb_true_iff in W as [Lt NR].
    apply Nat.ltb_lt in Lt. apply negb_true_iff in NR.
    destruct (nth_error (toks h) k) as [[[q L] r]|] eqn:N.
    2:{ apply nth_error_None in N. lia. }
    assert (r = false) as ->.
    { destruct r; [|reflexivity]. assert (existsb (Nat.eqb k) rel = true) as T by (apply Lk; eauto).
      rewrite T in NR. discriminate. }
    simpl. split.
    + unfold inv; simpl. intro X. destruct (I X) as [Ix Lx]. rewrite release_all_spec.
      rewrite (owners_mark X q L _ _ (eq_ind _ (fun l => length l <= 1) Lx _ Ix) N).
      destruct (memb X L); simpl; [split; [reflexivity|lia]|split; assumption].
    + split; [now rewrite length_mark|]. intro j. simpl. rewrite nth_error_mark.
      destruct (Nat.eqb j k) eqn:E.
      * apply Nat.eqb_eq in E. subst j. rewrite N. simpl. split; eauto.
      * simpl. apply Lk.
Qed.

Lemma run_cons h o rest :
  run h (o :: rest) = (fst (run (fst (step h o)) rest), snd (step h o) :: snd (run (fst (step h o)) rest)).
Proof.
  simpl. destruct (step h o) as [h1 r]. simpl. destruct (run h1 rest) as [h2 rs]. reflexivity.
Qed.

Lemma wf_ops_cons ntok rel o rest :
  wf_ops ntok rel (o :: rest) = true ->
  wf_ops ntok rel [o] = true /\
  match o with
  | OTake _ _ => wf_ops (S ntok) rel rest = true
  | ORelease k => wf_ops ntok (k :: rel) rest = true
  end.
Proof.
  destruct o as [p ifs|k]; simpl; intro H; [auto|].
  apply andb_true_iff in H as [A B]. rewrite A. auto.
Qed.

Lemma run_inv ops : forall h ntok rel,
  inv h -> linked (toks h) ntok rel -> wf_ops ntok rel ops = true -> inv (fst (run h ops)).
Proof.
  induction ops as [|o rest IH]; intros h ntok rel I L W; [exact I|].
  rewrite run_cons. simpl fst. destruct (wf_ops_cons _ _ _ _ W) as [W1 W2].
  destruct (step_inv h o ntok rel I L W1) as [I' L'].
  destruct o as [p ifs|k]; eapply IH; eauto.
Qed.

Lemma inv_h0 : inv h0 /\ linked (toks h0) 0 [].
Proof.
  split; [intro X; simpl; split; [reflexivity|lia]|]. split; [reflexivity|].
  intro k. simpl. split; [discriminate|]. intros (p & L & N). destruct k; discriminate.
Qed.

Lemma history_holder ops : wf_ops 0 [] ops = true ->
  forall X, fs (fst (run h0 ops)) X = owners (toks (fst (run h0 ops))) X /\
            length (fs (fst (run h0 ops)) X) <= 1.
Proof. intro W. destruct inv_h0 as [I L]. exact (run_inv ops h0 0 [] I L W). Qed.

(* single holder needs no side condition at all *)
Lemma step_single h o : (forall X, length (fs h X) <= 1) -> forall X, length (fs (fst (step h o)) X) <= 1.
Proof.
  intros I X. destruct o as [p ifs|k]; simpl.
  - destruct (f_takeover_cases p ifs (fs h)) as [(st' & E & Free & U)|(st' & E & U)]; rewrite E; simpl; rewrite U.
    + destruct (memb X (known ifs)); [simpl; lia|apply I].
    + apply I.
  - destruct (nth_error (toks h) k) as [[[q L] r]|]; simpl; [|apply I].
    rewrite release_all_spec. destruct (memb X L); [simpl; lia|apply I].
Qed.

Lemma run_single ops : forall h, (forall X, length (fs h X) <= 1) ->
  forall X, length (fs (fst (run h ops)) X) <= 1.
Proof.
  induction ops as [|o rest IH]; intros h I X; [apply I|].
  rewrite run_cons. simpl fst. apply IH. apply step_single. exact I.
Qed.

(* ------------------------------------------------------------------ part 4: connect *)

(* only SetupData whose connect() returned True are registered, at most one per protocol *)
Lemma connect_regs_In added : forall handled p i,
  In (p, i) (connect_regs added handled) ->
  In (p, true, Some i) added /\ existsb (proto_eqb p) handled = false.
Proof.
  induction added as [|[[q ok] oi] rest IH]; intros handled p i H; simpl in H; [destruct H|].
  destruct (existsb (proto_eqb q) handled) eqn:Hq.
  - destruct (IH _ _ _ H) as [A B]. split; [now right|exact B].
  - destruct ok.
    + apply in_app_or in H as [H|H].
      * destruct oi as [j|]; [|destruct H]. destruct H as [H|[]]. inversion H; subst.
        split; [now left|exact Hq].
      * destruct (IH _ _ _ H) as [A B]. split; [now right|].
        rewrite existsb_app in B. apply orb_false_iff in B. tauto.
    + destruct (IH _ _ _ H) as [A B]. split; [now right|exact B].
Qed.

Lemma connect_regs_distinct added : forall handled p i,
  In (p, i) (connect_regs added handled) -> reg_of (connect_regs added handled) p = Some i.
Proof.
  induction added as [|[[q ok] oi] rest IH]; intros handled p i H; simpl in *; [destruct H|].
  destruct (existsb (proto_eqb q) handled) eqn:Hq; [exact (IH _ _ _ H)|].
  destruct ok; [|exact (IH _ _ _ H)].
  destruct oi as [j|]; simpl in *.
  - destruct H as [H|H].
    + inversion H; subst. assert (E : proto_eqb p p = true) by now apply proto_eqb_eq. now rewrite E.
    + destruct (proto_eqb q p) eqn:E.
      * apply proto_eqb_eq in E. subst q. destruct (connect_regs_In _ _ _ _ H) as [_ B].
        rewrite existsb_app in B. apply orb_false_iff in B as [_ B]. simpl in B.
        assert (T : proto_eqb p p = true) by now apply proto_eqb_eq. rewrite T in B. discriminate.
      * exact (IH _ _ _ H).
  - exact (IH _ _ _ H).
Qed.

Lemma reg_of_In l : forall p i, reg_of l p = Some i -> In (p, i) l.
Proof.
  induction l as [|[q j] t IH]; intros p i H; simpl in H; [discriminate|].
  destruct (proto_eqb q p) eqn:E.
  - apply proto_eqb_eq in E. inversion H; subst. now left.
  - right. exact (IH _ _ H).
Qed.

(* a call is never executed by a protocol that did not connect *)
Lemma routed_connected added order p :
  find_instance (reg_of (connect_regs added [])) order = Routed p ->
  exists i, In (p, true, Some i) added /\ overrides i = true.
Proof.
  intro H. destruct (routed_overrides _ _ _ H) as (_ & i & R & _ & O).
  exists i. split; [|exact O]. exact (proj1 (connect_regs_In _ _ _ _ (reg_of_In _ _ _ R))).
Qed.
