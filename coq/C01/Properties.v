(* C01 - property theorems only.  `reg`, `order`, `holder`, `ops` are universally quantified:
   every override table, every set of connected protocols, every takeover state, every history.
   The statements about the code's own tables (Gen.rows, Gen.relayer_prio, Gen.real_impl) are
   re-proved against the tables regenerated from the source on every run. *)
From Coq Require Import List Bool String.
From PV Require Import Common.Cases C01.Model C01.Spec C01.Proofs C01.Gen C01.ProofsGen.
Import ListNotations.

(* The relayer picks protocol p  iff  p is the FIRST protocol in the order (takeover holder, then
   priority list) that is connected and whose class overrides the member - hence a unique one. *)
Theorem C01_relay_spec : forall reg order p, conforming reg ->
  (find_instance reg order = Routed p <-> first_implementing reg order p).
Proof. exact relay_routed. Qed.
Print Assumptions C01_relay_spec.

(* NotSupportedError  iff  no protocol of the order is connected and implements the member;
   a RuntimeError is impossible for instances of subclasses of the base interface. *)
Theorem C01_relay_none : forall reg order, conforming reg ->
  (find_instance reg order = NotSupported <-> forall q, In q order -> implements reg q = false) /\
  find_instance reg order <> RuntimeErr.
Proof. intros reg order C. split; [exact (relay_none reg order C)|exact (relay_never_runtime reg order C)]. Qed.
Print Assumptions C01_relay_none.

(* Never sent to a protocol that is not connected or merely inherits the interface default -
   for EVERY registration, conforming or not. *)
Theorem C01_never_default : forall reg order p,
  find_instance reg order = Routed p ->
  In p order /\ exists i, reg p = Some i /\ truthy i = true /\ overrides i = true.
Proof. exact routed_overrides. Qed.
Print Assumptions C01_never_default.

(* Complete description of _find_instance without any hypothesis (falsy instances are skipped,
   a class lacking the attribute raises RuntimeError). *)
Theorem C01_relay_general : forall reg order,
  find_instance reg order =
  match find (stops reg) order with
  | None => NotSupported
  | Some p => if lacks reg p then RuntimeErr else Routed p
  end.
Proof. exact find_general. Qed.
Print Assumptions C01_relay_general.

(* The rule of the property text: holder of a takeover first if it implements the member,
   otherwise the first implementing protocol of the priority order; None iff nobody implements. *)
Theorem C01_route_text_meaning : forall prio holder reg p,
  (route_text prio holder reg = Some p <->
   (holder = Some p /\ implements reg p = true) \/
   ((forall h, holder = Some h -> implements reg h = false) /\ first_implementing reg prio p)) /\
  ((forall q, In q prio) ->
   (route_text prio holder reg = None <-> forall q, implements reg q = false)).
Proof. intros. split; [apply route_text_some|apply route_text_none]. Qed.
Print Assumptions C01_route_text_meaning.

(* EVERY public member of the nine interfaces (and of the push updater), as the facade classes
   relay it now: a call through the device object is executed exactly as the text's rule says, with
   the priority order of the text (Companion first for power), for every override table, every set
   of connected protocols and every takeover holder.  play_url is additionally refused while the
   features interface does not report PlayUrl as available; push_updater.start/stop reach every
   registered instance. *)
Theorem C01_every_member_routed : forall r, In r rows ->
  forall holder gate regd reg, conforming reg ->
  facade_call (r_kind r) (relayer_prio (r_iface r)) (r_arg r) (opt_list holder) gate regd reg =
  match expected_kind (r_iface r) (r_member r) with
  | KRelay => text_result (route_text (text_order (r_iface r)) holder reg)
  | KGated => if gate then text_result (route_text (text_order (r_iface r)) holder reg) else ENotSupported
  | KBroadcast => Called regd
  end.
Proof. exact every_member_routed. Qed.
Print Assumptions C01_every_member_routed.

(* The generated tables are what the text needs: one row per public member, own name relayed,
   the two priority lists (parsed and imported) equal the text's orders, which are duplicate-free
   and contain all five protocols. *)
Theorem C01_generated_tables :
  (default_ast = text_default /\ default_rt = text_default /\ power_ast = text_power /\ power_rt = text_power) /\
  (forall i, NoDup (text_order i) /\ forall p, In p (text_order i)) /\
  map (fun r => (r_iface r, r_member r)) rows = flat_map (fun im => map (pair (fst im)) (snd im)) members /\
  (forall r, In r rows -> r_target r = r_member r /\ r_kind r = expected_kind (r_iface r) (r_member r) /\
                          eff_priority (r_arg r) (relayer_prio (r_iface r)) = text_order (r_iface r)) /\
  facade_ifaces = all_ifaces.
Proof.
  split; [exact gen_prios|]. split; [intro i; split; [apply text_orders_nodup|apply text_orders_complete]|].
  split; [exact gen_rows_complete|]. split; [exact row_facts|exact (proj1 gen_ifaces)].
Qed.
Print Assumptions C01_generated_tables.

(* The real protocols, as their setup() registers them now, for every set S of connected ones. *)
Theorem C01_real_protocols_routed : forall S r, In r rows ->
  forall holder gate regd,
  facade_call (r_kind r) (relayer_prio (r_iface r)) (r_arg r) (opt_list holder) gate regd
              (real_reg S (r_iface r) (r_member r)) =
  member_spec r holder gate regd (real_reg S (r_iface r) (r_member r)).
Proof. intros S r I holder gate regd. apply every_member_routed; [exact I|apply real_reg_conforming]. Qed.
Print Assumptions C01_real_protocols_routed.

(* FacadeAppleTV.connect: for EVERY list of added SetupData with EVERY outcome of their connect():
   an instance takes part in routing only if its SetupData's connect() returned True (and it is
   the one set up for its protocol); a call is never executed by a protocol that did not connect. *)
Theorem C01_only_connected_take_part : forall added,
  (forall p i, In (p, i) (connect_regs added []) ->
     In (p, true, Some i) added /\ reg_of (connect_regs added []) p = Some i) /\
  (forall order p, find_instance (reg_of (connect_regs added [])) order = Routed p ->
     exists i, In (p, true, Some i) added /\ overrides i = true).
Proof.
  intro added. split.
  - intros p i H. split; [exact (proj1 (connect_regs_In added [] p i H))|exact (connect_regs_distinct added [] p i H)].
  - intros order p. exact (routed_connected added order p).
Qed.
Print Assumptions C01_only_connected_take_part.

(* FacadeAppleTV.takeover is all-or-nothing: granted iff every requested interface of the device
   is free (none requested twice), then exactly those are held by p; otherwise InvalidStateError
   and the state is what it was (everything acquired on the way is rolled back). *)
Theorem C01_takeover_all_or_nothing : forall p ifs st,
  if grantable ifs st
  then exists st', f_takeover p ifs st = (st', Some (known ifs)) /\
                   forall X, st' X = if memb X (known ifs) then [p] else st X
  else exists st', f_takeover p ifs st = (st', None) /\ forall X, st' X = st X.
Proof. exact takeover_all_or_nothing. Qed.
Print Assumptions C01_takeover_all_or_nothing.

(* A token gives back exactly its own interfaces. *)
Theorem C01_release_restores : forall taken st X,
  release_all taken st X = if memb X taken then [] else st X.
Proof. exact release_all_spec. Qed.
Print Assumptions C01_release_restores.

(* After ANY history of takeovers and releases every interface has at most one holder. *)
Theorem C01_single_holder : forall ops X, List.length (fs (fst (run h0 ops)) X) <= 1.
Proof. intros ops X. apply run_single. intro Y. simpl. auto. Qed.
Print Assumptions C01_single_holder.

(* After any history in which each token is called at most once (and only after it was returned),
   the holder of an interface is exactly the protocol of the un-called token covering it. *)
Theorem C01_history_holder : forall ops, wf_ops 0 [] ops = true ->
  forall X, fs (fst (run h0 ops)) X = owners (toks (fst (run h0 ops))) X.
Proof. intros ops W X. exact (proj1 (history_holder ops W X)). Qed.
Print Assumptions C01_history_holder.

(* Routing after any history: the call is executed as the text says with the current holder. *)
Theorem C01_routed_after_any_history : forall ops r, In r rows ->
  forall gate regd reg, conforming reg ->
  exists holder,
    fs (fst (run h0 ops)) (r_iface r) = opt_list holder /\
    (wf_ops 0 [] ops = true -> opt_list holder = owners (toks (fst (run h0 ops))) (r_iface r)) /\
    facade_call (r_kind r) (relayer_prio (r_iface r)) (r_arg r)
                (fs (fst (run h0 ops)) (r_iface r)) gate regd reg =
    member_spec r holder gate regd reg.
Proof. exact after_any_history. Qed.
Print Assumptions C01_routed_after_any_history.

(* The side condition of C01_history_holder is needed: a token called a second time takes the
   interface away from the protocol that acquired it in between. *)
Theorem C01_double_release_refuted : exists ops X,
  wf_ops 0 [] ops = false /\ fs (fst (run h0 ops)) X <> owners (toks (fst (run h0 ops))) X.
Proof.
  exists [OTake MRP [Some IAudio]; ORelease 0; OTake RAOP [Some IAudio]; ORelease 0], IAudio.
  split; [reflexivity|]. vm_compute. discriminate.
Qed.
Print Assumptions C01_double_release_refuted.

(* Non-vacuity. *)
Example C01_ex_registration :
  let reg := reg_of [(DMAP, mkI true true true); (Companion, mkI true true true); (MRP, mkI true true false)] in
  conforming reg /\
  route_text text_default None reg = Some DMAP /\
  route_text text_power None reg = Some Companion /\
  route_text text_default (Some Companion) reg = Some Companion /\
  route_text text_default (Some MRP) reg = Some DMAP /\
  route_text text_default (Some RAOP) reg = Some DMAP.
Proof.
  split; [|repeat split].
  intros p i. destruct p; simpl; intro H; inversion H; subst; simpl; auto.
Qed.

Example C01_ex_history :
  let ops := [OTake RAOP [Some IAudio; None; Some IMetadata]; OTake AirPlay [Some IStream; Some IAudio];
              ORelease 0; OTake AirPlay [Some IStream; Some IAudio]] in
  wf_ops 0 [] ops = true /\
  snd (run h0 ops) = [RTaken; RInvalidState; RReleased; RTaken] /\
  map (fs (fst (run h0 ops))) [IAudio; IMetadata; IStream] = [[AirPlay]; []; [AirPlay]].
Proof. repeat split. Qed.

Example C01_ex_rows : exists r, In r rows /\ existsb (fun x => iface_eqb (r_iface x) IPower) rows = true.
Proof. vm_compute. eexists. split; [left; reflexivity|reflexivity]. Qed.
