From Coq Require Import List.
From PV Require Import C01.Model C01.Gen.
